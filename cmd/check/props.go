package main

import "time"

const (
	sec = time.Second
	min = time.Minute
)

// props is the per-property run configuration (package, test, budgets).
var props = map[string]propCfg{
	"C15": one(part{Pkg: "./props/unit", Test: "TestC15",
		Quick:    tierCfg{Cases: 20000, Shards: 1, Timeout: 5 * min, ShrinkTime: 20 * sec},
		Thorough: tierCfg{Cases: 2000000, Shards: 16, Timeout: 30 * min, ShrinkTime: 60 * sec}}),
	"C17": one(part{Pkg: "./props/unit", Test: "TestC17",
		Quick:    tierCfg{Cases: 6000, Shards: 2, Timeout: 5 * min, ShrinkTime: 20 * sec},
		Thorough: tierCfg{Cases: 480000, Shards: 16, Timeout: 40 * min, ShrinkTime: 60 * sec}}),
	"C16": one(part{Pkg: "./props/unit", Test: "TestC16",
		Quick:    tierCfg{Cases: 20000, Shards: 2, Timeout: 5 * min, ShrinkTime: 20 * sec},
		Thorough: tierCfg{Cases: 2000000, Shards: 16, Timeout: 40 * min, ShrinkTime: 60 * sec}}),
	"C14": {Parts: []part{
		{Name: "unit", Pkg: "./props/unit", Test: "TestC14Unit",
			Quick:    tierCfg{Cases: 3000, Shards: 2, Timeout: 5 * min, ShrinkTime: 20 * sec},
			Thorough: tierCfg{Cases: 320000, Shards: 16, Timeout: 60 * min, ShrinkTime: 60 * sec}},
		{Name: "cli", Pkg: "./props/process", Test: "TestC14CLI",
			Quick:    tierCfg{Cases: 64, Shards: 8, Timeout: 15 * min, ShrinkTime: 60 * sec},
			Thorough: tierCfg{Cases: 1000, Shards: 16, Timeout: 120 * min, ShrinkTime: 5 * min}},
	}},
	"C01": one(part{Pkg: "./props/static", Test: "TestC01",
		Quick:    tierCfg{Cases: 96, Shards: 6, Timeout: 10 * min, ShrinkTime: 30 * sec},
		Thorough: tierCfg{Cases: 1500, Shards: 14, Timeout: 60 * min, ShrinkTime: 5 * min}}),
	"C04": one(part{Pkg: "./props/static", Test: "TestC04",
		Quick:    tierCfg{Cases: 96, Shards: 6, Timeout: 10 * min, ShrinkTime: 30 * sec},
		Thorough: tierCfg{Cases: 1500, Shards: 14, Timeout: 60 * min, ShrinkTime: 5 * min}}),
	"C13": one(part{Pkg: "./props/process", Test: "TestC13",
		Quick:    tierCfg{Cases: 8, Shards: 8, Timeout: 15 * min, ShrinkTime: 60 * sec},
		Thorough: tierCfg{Cases: 64, Shards: 16, Timeout: 90 * min, ShrinkTime: 5 * min}}),
	"C20": one(part{Pkg: "./props/process", Test: "TestC20",
		Quick:    tierCfg{Cases: 160, Shards: 8, Timeout: 15 * min, ShrinkTime: 45 * sec},
		Thorough: tierCfg{Cases: 3000, Shards: 16, Timeout: 90 * min, ShrinkTime: 5 * min}}),
	"C06": one(part{Pkg: "./props/static", Test: "TestC06",
		Quick:    tierCfg{Cases: 96, Shards: 6, Timeout: 10 * min, ShrinkTime: 30 * sec},
		Thorough: tierCfg{Cases: 1500, Shards: 14, Timeout: 60 * min, ShrinkTime: 5 * min}}),
	"C07": one(part{Pkg: "./props/static", Test: "TestC07",
		Quick:    tierCfg{Cases: 72, Shards: 6, Timeout: 10 * min, ShrinkTime: 30 * sec},
		Thorough: tierCfg{Cases: 1200, Shards: 14, Timeout: 60 * min, ShrinkTime: 5 * min}}),
	"C11": one(part{Pkg: "./props/static", Test: "TestC11",
		Quick:    tierCfg{Cases: 96, Shards: 6, Timeout: 10 * min, ShrinkTime: 30 * sec},
		Thorough: tierCfg{Cases: 1500, Shards: 14, Timeout: 60 * min, ShrinkTime: 5 * min}}),
	"C08": one(part{Pkg: "./props/static", Test: "TestC08",
		Quick:    tierCfg{Cases: 64, Shards: 8, Timeout: 10 * min, ShrinkTime: 30 * sec},
		Thorough: tierCfg{Cases: 1200, Shards: 14, Timeout: 60 * min, ShrinkTime: 5 * min}}),
	"C10": one(part{Pkg: "./props/static", Test: "TestC10",
		Quick:    tierCfg{Cases: 120, Shards: 8, Timeout: 10 * min, ShrinkTime: 30 * sec},
		Thorough: tierCfg{Cases: 3000, Shards: 14, Timeout: 60 * min, ShrinkTime: 5 * min}}),
	"C18": one(part{Pkg: "./props/static", Test: "TestC18",
		Quick:    tierCfg{Cases: 120, Shards: 8, Timeout: 10 * min, ShrinkTime: 30 * sec},
		Thorough: tierCfg{Cases: 3000, Shards: 14, Timeout: 60 * min, ShrinkTime: 5 * min}}),
	"C19": one(part{Pkg: "./props/static", Test: "TestC19",
		Quick:    tierCfg{Cases: 64, Shards: 8, Timeout: 10 * min, ShrinkTime: 30 * sec},
		Thorough: tierCfg{Cases: 800, Shards: 14, Timeout: 60 * min, ShrinkTime: 5 * min}}),
}
