// check is the driver: ./check <ID> --tier quick|thorough [--replay file] [--cases N] [--shards N]
//
// It rebuilds the property's test binary against /repo's current working tree, runs the
// replay tier (corpus/<ID>/*.json) and then the generated tier in one or more shard
// processes, merges their evidence into evidence/<ID>.json, prints KNOWN-FINDING /
// VIOLATION lines and exits 0 (held), 1 (violation) or 2 (inconclusive: build failure,
// harness timeout, starving generator, crashed shard).
package main

import (
	"bytes"
	"context"
	"encoding/json"
	"flag"
	"fmt"
	"os"
	"os/exec"
	"path/filepath"
	"regexp"
	"sort"
	"strconv"
	"strings"
	"sync"
	"syscall"
	"time"

	"verif/internal/ev"
)

type tierCfg struct {
	Cases      int           // rapid checks in total (split over shards)
	Shards     int           // parallel processes
	Timeout    time.Duration // per shard, harness guard only
	ShrinkTime time.Duration
	FuzzTime   time.Duration // native fuzzing per target (thorough only)
}

// part is one test function deciding (a facet of) a property; most properties have one.
type part struct {
	Name     string // "" for the only part; otherwise also the corpus sub-directory
	Pkg      string
	Test     string
	Tags     string
	Quick    tierCfg
	Thorough tierCfg
	Fuzz     []string // native fuzz targets (same package), thorough tier only
	Env      []string
}

type shardRes struct {
	shard    *ev.Shard
	exit     int
	timedOut bool
	out      string
	label    string
	timeout  time.Duration
	part     int
}

var (
	fuzzExecs = regexp.MustCompile(`execs: (\d+)`)
	fuzzTotal = regexp.MustCompile(`new interesting: \d+ \(total: (\d+)\)`)
	fuzzViol  = regexp.MustCompile(`VERIF-FUZZ-VIOLATION signature=(\S+) replay=(\S+)`)
)

// runFuzz runs one native fuzz target for a bounded time and turns its outcome into shard evidence.
// The target carries the semantic oracle and writes an ordinary replay file before failing.
func runFuzz(R, scratch, id string, pt part, pi, fi int, target string, d time.Duration) shardRes {
	cache := filepath.Join(scratch, fmt.Sprintf("fuzzcache-p%d-%d", pi, fi))
	pkgDir := filepath.Join(R, strings.TrimPrefix(pt.Pkg, "./"))
	crashDir := filepath.Join(pkgDir, "testdata", "fuzz", target)
	_ = os.RemoveAll(crashDir)
	defer os.RemoveAll(crashDir) // the replay file written by the target is the reproducible unit, not go's crasher copy
	timeout := d + 10*time.Minute
	ctx, cancel := context.WithTimeout(context.Background(), timeout)
	defer cancel()
	args := []string{"test"}
	if pt.Tags != "" {
		args = append(args, "-tags", pt.Tags)
	}
	// the package comes first: go test stops looking for its own flags at the first -test.* one
	args = append(args, pt.Pkg, "-run", "^$", "-fuzz", "^"+target+"$", "-fuzztime", d.String(), "-fuzzminimizetime", "5s", "-test.fuzzcachedir="+cache)
	cmd := exec.CommandContext(ctx, "go", args...)
	cmd.Dir = R
	cmd.Env = goEnv("VERIF_ROOT="+R, "VERIF_PROPERTY="+id, "VERIF_PART="+pt.Name, "VERIF_TIER=thorough")
	var buf bytes.Buffer
	cmd.Stdout, cmd.Stderr = &buf, &buf
	cmd.WaitDelay = 5 * time.Second
	err := cmd.Run()
	out := buf.String()
	res := shardRes{out: out, label: "fuzz:" + target, timeout: timeout, part: pi}
	s := &ev.Shard{Property: id, Labels: map[string]int{}, Excluded: map[string]int{}, KnownSeen: map[string]int{}, KnownText: map[string]string{},
		Floors: map[string]float64{}, Extra: map[string]any{}}
	if m := fuzzExecs.FindAllStringSubmatch(out, -1); len(m) > 0 {
		n, _ := strconv.Atoi(m[len(m)-1][1])
		s.Evaluations = n
		s.Labels["fuzz:"+target+":execs"] = n
	}
	if m := fuzzTotal.FindAllStringSubmatch(out, -1); len(m) > 0 {
		n, _ := strconv.Atoi(m[len(m)-1][1])
		s.Labels["fuzz:"+target+":corpus-entries"] = n
	}
	s.Extra["fuzz_"+target] = fmt.Sprintf("go test -fuzz=%s -fuzztime=%s: %s", target, d, lastLine(out))
	if ctx.Err() == context.DeadlineExceeded {
		res.timedOut = true
	}
	if err != nil {
		res.exit = 1
		if m := fuzzViol.FindStringSubmatch(out); m != nil {
			msg := out
			if i := strings.Index(out, "VERIF-FUZZ-VIOLATION"); i >= 0 {
				msg = tail(out[i:], 3000)
			}
			s.Violations = append(s.Violations, ev.Violation{Signature: m[1], Message: msg, Replay: m[2]})
		} else if !res.timedOut {
			s.Inconclusive = append(s.Inconclusive, "fuzz target "+target+" failed without a violation record: "+tail(out, 600))
		}
	}
	res.shard = s
	return res
}

func envTrouble(msg string) bool {
	for _, needle := range []string{"no space left on device", "cache entry not found", "creating work dir"} {
		if strings.Contains(msg, needle) {
			return true
		}
	}
	return false
}

// freeBytes reports the free space of the file system holding dir (-1 when it cannot be determined).
func freeBytes(dir string) int64 {
	var st syscall.Statfs_t
	if err := syscall.Statfs(dir, &st); err != nil {
		return -1
	}
	return int64(st.Bavail) * int64(st.Bsize)
}

func lastLine(s string) string {
	ls := strings.Split(strings.TrimSpace(s), "\n")
	for i := len(ls) - 1; i >= 0; i-- {
		if strings.Contains(ls[i], "execs:") {
			return strings.TrimSpace(ls[i])
		}
	}
	return strings.TrimSpace(ls[len(ls)-1])
}

type propCfg struct {
	Parts []part
}

func one(p part) propCfg { return propCfg{Parts: []part{p}} }

func root() string {
	if r := os.Getenv("VERIF_ROOT"); r != "" {
		return r
	}
	exe, err := os.Executable()
	if err == nil {
		d := filepath.Dir(filepath.Dir(exe)) // <root>/.bin/check
		if _, err := os.Stat(filepath.Join(d, "MANIFEST.json")); err == nil {
			return d
		}
	}
	return "/verif"
}

func main() {
	os.Exit(run())
}

func goEnv(extra ...string) []string {
	env := []string{}
	for _, e := range os.Environ() {
		if strings.HasPrefix(e, "GOSUMDB=") || strings.HasPrefix(e, "GOFLAGS=") || strings.HasPrefix(e, "GOPROXY=") || strings.HasPrefix(e, "GOTOOLCHAIN=") {
			continue
		}
		env = append(env, e)
	}
	env = append(env, "GOFLAGS=-mod=mod", "GOPROXY=off", "GOTOOLCHAIN=auto", "GONOSUMDB=pgregory.net")
	return append(env, extra...)
}

func run() int {
	if len(os.Args) < 2 {
		fmt.Fprintln(os.Stderr, "usage: check <ID> --tier quick|thorough [--replay file]")
		return 2
	}
	id := os.Args[1]
	fs := flag.NewFlagSet("check", flag.ContinueOnError)
	tier := fs.String("tier", envOr("VERIF_TIER", "quick"), "quick|thorough")
	replay := fs.String("replay", "", "replay one file")
	casesOverride := fs.Int("cases", 0, "override case count")
	fuzzOverride := fs.Duration("fuzztime", 0, "override the native fuzzing time per target (thorough tier)")
	shardsOverride := fs.Int("shards", 0, "override shard count")
	verbose := fs.Bool("v", false, "show test output")
	if err := fs.Parse(os.Args[2:]); err != nil {
		return 2
	}
	cfg, ok := props[id]
	if !ok {
		fmt.Fprintf(os.Stderr, "unknown property %q\n", id)
		return 2
	}
	if *tier != "thorough" {
		*tier = "quick"
	}
	seed := int64(1)
	if s := os.Getenv("VERIF_SEED"); s != "" {
		if v, err := strconv.ParseInt(s, 10, 64); err == nil {
			seed = v
		}
	}
	rapidBase := uint64(seed)
	if seed <= 0 {
		rapidBase = uint64(0x5eed) + uint64(-seed)
	}

	R := root()
	start := time.Now()
	scratch, err := os.MkdirTemp("", "verif-"+id+"-")
	if err != nil {
		fmt.Fprintln(os.Stderr, "INCONCLUSIVE: cannot create scratch dir:", err)
		return 2
	}
	defer os.RemoveAll(scratch)

	// Disk: generated projects are compiled by the thousand and everything go compiles lands in its build cache.
	// A full disk turns into failures that look like findings (a command that cannot write its output "rejects a valid
	// configuration"), so a run does not start without head room and never reports what ENOSPC produced.
	if free := freeBytes(scratch); free >= 0 && free < 6<<30 {
		fmt.Printf("INCONCLUSIVE: property=%s only %d MiB free on the scratch/cache file system (need 6 GiB); run `go clean -cache` or free space\n", id, free>>20)
		return 2
	}
	// The thorough tier of the labs that compile every generated project keeps go's cache in the scratch directory
	// (removed on exit): hundreds of unique packages per run would otherwise stay in ~/.cache/go-build for days.
	projectCache := ""
	if *tier == "thorough" && *replay == "" {
		projectCache = filepath.Join(scratch, "gocache")
		_ = os.MkdirAll(projectCache, 0o755)
	}

	var results []shardRes

	// Which part does a replay file belong to?
	replayPart := ""
	replayAbs := ""
	if *replay != "" {
		replayAbs, _ = filepath.Abs(*replay)
		if b, err := os.ReadFile(replayAbs); err == nil {
			var rf struct {
				Part string `json:"part"`
			}
			_ = json.Unmarshal(b, &rf)
			replayPart = rf.Part
		}
	}

	for pi, pt := range cfg.Parts {
		if *replay != "" && pt.Name != replayPart {
			continue
		}
		tc := pt.Quick
		if *tier == "thorough" {
			tc = pt.Thorough
		}
		if *fuzzOverride > 0 {
			tc.FuzzTime = *fuzzOverride
		}
		if *casesOverride > 0 {
			tc.Cases = *casesOverride
		}
		if *shardsOverride > 0 {
			tc.Shards = *shardsOverride
		}
		if tc.Shards < 1 {
			tc.Shards = 1
		}
		if tc.Cases == 0 && *replay == "" {
			continue // part not run in this tier
		}

		// Build the part's test binary against /repo's working tree.
		bin := filepath.Join(scratch, fmt.Sprintf("part%d.test", pi))
		args := []string{"test", "-c", "-o", bin}
		if pt.Tags != "" {
			args = append(args, "-tags", pt.Tags)
		}
		args = append(args, pt.Pkg)
		build := exec.Command("go", args...)
		build.Dir = R
		build.Env = goEnv()
		if out, err := build.CombinedOutput(); err != nil {
			fmt.Printf("INCONCLUSIVE: property=%s harness build failed against the current tree:\n%s\n", id, tail(string(out), 4000))
			return 2
		}

		runShard := func(i int, env []string, cases int, sd uint64, timeout time.Duration) shardRes {
			outFile := filepath.Join(scratch, fmt.Sprintf("part%d-shard%d.json", pi, i))
			ctx, cancel := context.WithTimeout(context.Background(), timeout)
			defer cancel()
			cmd := exec.CommandContext(ctx, bin,
				"-test.run", "^"+pt.Test+"$", "-test.timeout", "0", "-test.count", "1",
				"-rapid.checks", strconv.Itoa(cases), "-rapid.seed", strconv.FormatUint(sd, 10),
				"-rapid.nofailfile", "-rapid.shrinktime", tc.ShrinkTime.String())
			cmd.Dir = filepath.Join(R, strings.TrimPrefix(pt.Pkg, "./"))
			shardScratch := filepath.Join(scratch, fmt.Sprintf("p%ds%d", pi, i))
			_ = os.MkdirAll(shardScratch, 0o755)
			cmd.Env = goEnv(append(append([]string{
				"VERIF_OUT=" + outFile, "VERIF_ROOT=" + R, "VERIF_SCRATCH=" + shardScratch,
				"VERIF_TIER=" + *tier, "VERIF_SHARD=" + strconv.Itoa(i), "VERIF_SHARDS=" + strconv.Itoa(tc.Shards), "VERIF_PROPERTY=" + id, "VERIF_PART=" + pt.Name,
				"VERIF_CASES=" + strconv.Itoa(cases), "VERIF_RSEED=" + strconv.FormatUint(sd, 10), "TMPDIR=" + shardScratch, "VERIF_PROJECT_GOCACHE=" + projectCache,
			}, pt.Env...), env...)...)
			if projectCache != "" {
				// also what the in-process analysis (go/packages) and the CLI runs compile while loading generated projects
				cmd.Env = append(cmd.Env, "GOCACHE="+projectCache)
			}
			var buf bytes.Buffer
			cmd.Stdout, cmd.Stderr = &buf, &buf
			cmd.WaitDelay = 5 * time.Second
			err := cmd.Run()
			res := shardRes{out: buf.String(), label: fmt.Sprintf("%s/%d", pt.Test, i), timeout: timeout, part: pi}
			if ctx.Err() == context.DeadlineExceeded {
				res.timedOut = true
			}
			if err != nil {
				res.exit = 1
				if ee, ok := err.(*exec.ExitError); ok {
					res.exit = ee.ExitCode()
				}
			}
			if b, err := os.ReadFile(outFile); err == nil {
				var s ev.Shard
				if json.Unmarshal(b, &s) == nil {
					res.shard = &s
				}
			}
			return res
		}

		if *replay != "" {
			results = append(results, runShard(0, []string{"VERIF_REPLAY=" + replayAbs}, 1, 1, tc.Timeout))
			continue
		}
		partResults := make([]shardRes, tc.Shards)
		var wg sync.WaitGroup
		per := (tc.Cases + tc.Shards - 1) / tc.Shards
		for i := 0; i < tc.Shards; i++ {
			wg.Add(1)
			go func(i int) {
				defer wg.Done()
				env := []string{}
				if i == 0 {
					env = append(env, "VERIF_CORPUS="+filepath.Join(R, "corpus", id, pt.Name))
				}
				sd := rapidBase*1000003 + uint64(i)*7919 + uint64(pi)*104729 + 1
				partResults[i] = runShard(i, env, per, sd, tc.Timeout)
			}(i)
		}
		wg.Wait()
		results = append(results, partResults...)

		// Native coverage-guided fuzzing of the same oracle (thorough tier only, wall-clock bounded).
		if *tier == "thorough" && tc.FuzzTime > 0 {
			for fi, target := range pt.Fuzz {
				results = append(results, runFuzz(R, scratch, id, pt, pi, fi, target, tc.FuzzTime))
			}
		}
	}
	if len(results) == 0 {
		fmt.Printf("INCONCLUSIVE: property=%s nothing was run\n", id)
		return 2
	}

	// 2. Merge.
	merged := ev.Shard{Property: id, Labels: map[string]int{}, Excluded: map[string]int{}, KnownSeen: map[string]int{},
		KnownText: map[string]string{}, Floors: map[string]float64{}, Extra: map[string]any{}}
	hashes := map[uint64]struct{}{}
	inconclusive := []string{}
	for _, r := range results {
		if *verbose || (r.exit != 0 && (r.shard == nil || len(r.shard.Violations) == 0)) {
			fmt.Printf("---- shard %s output (exit %d) ----\n%s\n", r.label, r.exit, tail(r.out, 6000))
		}
		if r.timedOut {
			inconclusive = append(inconclusive, fmt.Sprintf("shard %s exceeded the harness time limit %s", r.label, r.timeout))
		}
		if r.shard == nil {
			inconclusive = append(inconclusive, fmt.Sprintf("shard %s wrote no evidence (exit %d)", r.label, r.exit))
			continue
		}
		s := r.shard
		if r.exit != 0 && len(s.Violations) == 0 && !r.timedOut {
			inconclusive = append(inconclusive, fmt.Sprintf("shard %s failed (exit %d) without recording a violation", r.label, r.exit))
		}
		merged.Evaluations += s.Evaluations
		merged.CorpusReplayed += s.CorpusReplayed
		for _, h := range s.Hashes {
			hashes[h] = struct{}{}
		}
		for k, v := range s.Labels {
			merged.Labels[k] += v
		}
		for k, v := range s.Excluded {
			merged.Excluded[k] += v
		}
		for k, v := range s.KnownSeen {
			merged.KnownSeen[k] += v
			merged.KnownText[k] = s.KnownText[k]
		}
		for k, v := range s.Floors {
			merged.Floors[k] = v
		}
		for k, v := range s.Extra {
			if f, ok := v.(float64); ok {
				if cur, ok := merged.Extra[k].(float64); ok {
					merged.Extra[k] = cur + f
				} else if _, exists := merged.Extra[k]; !exists {
					merged.Extra[k] = f
				}
			} else if _, exists := merged.Extra[k]; !exists {
				merged.Extra[k] = v
			}
		}
		if len(merged.Samples) < 6 {
			n := 6 - len(merged.Samples)
			if len(results) > 1 && n > 2 {
				n = 2
			}
			if n > len(s.Samples) {
				n = len(s.Samples)
			}
			merged.Samples = append(merged.Samples, s.Samples[:n]...)
		}
		for _, v := range s.Violations {
			// a failure produced by a full disk (or a vanished cache entry) is an environment problem, never a finding
			if envTrouble(v.Message) {
				merged.Inconclusive = append(merged.Inconclusive, "environment failure inside a case (disk full / build cache entry missing): "+tail(v.Message, 300))
				continue
			}
			merged.Violations = append(merged.Violations, v)
		}
		merged.Inconclusive = append(merged.Inconclusive, s.Inconclusive...)
		if s.Rule != "" && !strings.Contains(merged.Rule, s.Rule) {
			if merged.Rule != "" {
				merged.Rule += " || "
			}
			merged.Rule += s.Rule
			merged.Assumptions = append(merged.Assumptions, s.Assumptions...)
		}
	}
	inconclusive = append(inconclusive, merged.Inconclusive...)

	// Generator health, per part: a label the non-trivial rule depends on must not starve.
	if *replay == "" && len(merged.Violations) == 0 {
		type agg struct {
			evals, corpus int
			labels        map[string]int
			floors        map[string]float64
		}
		per := map[int]*agg{}
		for _, r := range results {
			if r.shard == nil || strings.HasPrefix(r.label, "fuzz:") {
				continue // the fuzzer's executions are counted, but the generator floors are about the rapid generators
			}
			a := per[r.part]
			if a == nil {
				a = &agg{labels: map[string]int{}, floors: map[string]float64{}}
				per[r.part] = a
			}
			a.evals += r.shard.Evaluations
			a.corpus += r.shard.CorpusReplayed
			for k, v := range r.shard.Labels {
				a.labels[k] += v
			}
			for k, v := range r.shard.Floors {
				a.floors[k] = v
			}
		}
		for pi, a := range per {
			if a.evals-a.corpus <= 0 {
				continue
			}
			for label, floor := range a.floors {
				frac := float64(a.labels[label]) / float64(a.evals)
				if frac < floor {
					inconclusive = append(inconclusive, fmt.Sprintf("generator starving in %s: label %q at %.3f < floor %.3f", cfg.Parts[pi].Test, label, frac, floor))
				}
			}
		}
	}

	// 3. Evidence.
	cov := map[string]any{
		"evaluations":         merged.Evaluations,
		"distinct_nontrivial": len(hashes),
		"rule":                merged.Rule,
		"samples":             merged.Samples,
		"labels":              merged.Labels,
		"excluded":            merged.Excluded,
		"known_findings_seen": merged.KnownSeen,
		"corpus_replayed":     merged.CorpusReplayed,
		"shards":              len(results),
		"exhaustive":          false,
	}
	for k, v := range merged.Extra {
		if _, exists := cov[k]; !exists {
			cov[k] = v
		}
	}
	if len(inconclusive) > 0 {
		cov["inconclusive"] = inconclusive
	}
	if len(merged.Violations) > 0 {
		cov["violation_details"] = merged.Violations
	}
	if merged.Samples == nil {
		cov["samples"] = []any{}
	}
	evidence := map[string]any{
		"property_id": id,
		"tier":        *tier,
		"seed":        seed,
		"level":       "exploration",
		"coverage":    cov,
		"assumptions": merged.Assumptions,
		"wall_s":      time.Since(start).Seconds(),
		"violations":  len(merged.Violations),
	}
	if merged.Assumptions == nil {
		evidence["assumptions"] = []string{}
	}
	if *replay == "" {
		b, _ := json.MarshalIndent(evidence, "", " ")
		_ = os.MkdirAll(filepath.Join(R, "evidence"), 0o755)
		if err := os.WriteFile(filepath.Join(R, "evidence", id+".json"), append(b, '\n'), 0o644); err != nil {
			fmt.Fprintln(os.Stderr, "cannot write evidence:", err)
		}
	}

	// 4. Report.
	sigs := make([]string, 0, len(merged.KnownSeen))
	for k := range merged.KnownSeen {
		sigs = append(sigs, k)
	}
	sort.Strings(sigs)
	for _, k := range sigs {
		fmt.Printf("KNOWN-FINDING: property=%s %s [%s, seen %d times]\n", id, merged.KnownText[k], k, merged.KnownSeen[k])
	}
	fmt.Printf("property=%s tier=%s seed=%d evaluations=%d distinct_nontrivial=%d corpus_replayed=%d wall=%.1fs\n",
		id, *tier, seed, merged.Evaluations, len(hashes), merged.CorpusReplayed, time.Since(start).Seconds())
	if len(merged.Violations) > 0 {
		seen := map[string]bool{}
		for _, v := range merged.Violations {
			if seen[v.Replay] {
				continue
			}
			seen[v.Replay] = true
			fmt.Printf("  %s: %s\n", v.Signature, head(v.Message, 1500))
			fmt.Printf("VIOLATION property=%s replay=%s\n", id, v.Replay)
		}
		return 1
	}
	if len(inconclusive) > 0 {
		for _, s := range inconclusive {
			fmt.Printf("INCONCLUSIVE: property=%s %s\n", id, s)
		}
		return 2
	}
	return 0
}

func envOr(k, d string) string {
	if v := os.Getenv(k); v != "" {
		return v
	}
	return d
}

func tail(s string, n int) string {
	if len(s) <= n {
		return s
	}
	return "…" + s[len(s)-n:]
}

func head(s string, n int) string {
	if len(s) <= n {
		return s
	}
	return s[:n] + "…"
}
