#!/usr/bin/env bash
# Offline setup: build the driver and warm the Go build cache (optimisation only).
set -u
ROOT="$(cd "$(dirname "${BASH_SOURCE[0]}")/.." && pwd)"
export GOFLAGS=-mod=mod GOPROXY=off GOTOOLCHAIN=auto GONOSUMDB=pgregory.net
unset GOSUMDB
cd "$ROOT" || exit 1
mkdir -p .bin evidence
go build -o .bin/check ./cmd/check || exit 1
go vet ./internal/... >/dev/null 2>&1 || true
for p in ./props/*/; do go test -c -o /dev/null "$p" >/dev/null 2>&1 || true; done
echo "setup ok"
