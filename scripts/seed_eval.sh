#!/usr/bin/env bash
# usage: seed_eval.sh <property-id> <patch.diff> [tier]
# Applies a seeded change to /repo's working tree, runs the property's check, restores the tree.
ID="$1"; PATCH="$2"; TIER="${3:-quick}"
cd /repo || exit 2
if [ -n "$(git status --porcelain)" ]; then echo "repo dirty"; exit 2; fi
if ! git apply "$PATCH"; then echo "SEED $ID: patch does not apply"; exit 2; fi
export GOFLAGS=-mod=mod GOPROXY=off
if ! go build ./... 2>/tmp/seed_build.txt; then echo "SEED $ID: does not compile"; head -5 /tmp/seed_build.txt; git checkout -- .; exit 2; fi
cp /verif/evidence/$ID.json /verif/.scratch_ev_$ID.json 2>/dev/null
cd /verif && out=$(./check "$ID" --tier "$TIER" 2>&1); rc=$?
mv /verif/.scratch_ev_$ID.json /verif/evidence/$ID.json 2>/dev/null
git -C /repo apply -R "$PATCH" 2>/dev/null; git -C /repo checkout -- .
git -C /repo status --porcelain
echo "$out" | grep -v "^KNOWN-FINDING" | cut -c1-400 | head -12
case $rc in
 1) echo "SEED $ID [$TIER]: CAUGHT";;
 0) echo "SEED $ID [$TIER]: MISSED";;
 *) echo "SEED $ID [$TIER]: inconclusive";;
esac
