#!/usr/bin/env bash
# usage: seed_confirm_script.sh <ID> <patch.diff> <run_demo.sh taking the worktree as $1>
# Same as seed_confirm.sh for demonstrations that are a script (exit 0 = property holds).
ID="$1"; PATCH="$2"; DEMO="$3"
export GOFLAGS=-mod=mod GOPROXY=off
W=/tmp/sw-$ID
git -C /repo worktree remove --force $W 2>/dev/null
git -C /repo worktree add -q $W HEAD || exit 2
bash "$DEMO" $W > /tmp/sc_$ID.without 2>&1; without=$?
( cd $W && git apply "$PATCH" ) || { echo "SEED-CONFIRM $ID: patch does not apply"; git -C /repo worktree remove --force $W; exit 2; }
( cd $W && go build ./... ) > /tmp/sc_$ID.build 2>&1; build=$?
bash "$DEMO" $W > /tmp/sc_$ID.with 2>&1; with=$?
( cd $W && git status --porcelain | grep -v '^ M' ) | head -5
/verif/scripts/baseline.sh $W > /tmp/sc_$ID.baseline 2>&1; base=$?
git -C /repo worktree remove --force $W
echo "SEED-CONFIRM $ID: demo-without-patch exit=$without (want 0), build=$build (want 0), demo-with-patch exit=$with (want !=0), baseline=$base (want 0): $(head -1 /tmp/sc_$ID.baseline)"
