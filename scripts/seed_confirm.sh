#!/usr/bin/env bash
# usage: seed_confirm.sh <ID> <patch.diff> <demo-src (file or dir)> <dest dir inside worktree> <go test package pattern>
# Confirms a seeded change in a scratch worktree: demo passes without it, fails with it, tree builds, baseline unchanged.
ID="$1"; PATCH="$2"; DEMO="$3"; DEST="$4"; PKG="$5"
export GOFLAGS=-mod=mod GOPROXY=off
W=/tmp/sw-$ID
git -C /repo worktree remove --force $W 2>/dev/null
git -C /repo worktree add -q $W HEAD || exit 2
mkdir -p $W/$DEST
if [ -d "$DEMO" ]; then cp -r "$DEMO"/. $W/$DEST/; else cp "$DEMO" $W/$DEST/; fi
cd $W
go test -vet=off -count=1 $PKG > /tmp/sc_$ID.without 2>&1; without=$?
git apply "$PATCH" || { echo "SEED-CONFIRM $ID: patch does not apply"; cd /; git -C /repo worktree remove --force $W; exit 2; }
go build ./... > /tmp/sc_$ID.build 2>&1; build=$?
go test -vet=off -count=1 $PKG > /tmp/sc_$ID.with 2>&1; with=$?
rm -rf $W/$DEST
/verif/scripts/baseline.sh $W > /tmp/sc_$ID.baseline 2>&1; base=$?
cd /; git -C /repo worktree remove --force $W
echo "SEED-CONFIRM $ID: demo-without-patch exit=$without (want 0), build=$build (want 0), demo-with-patch exit=$with (want !=0), baseline=$base (want 0): $(head -1 /tmp/sc_$ID.baseline)"
