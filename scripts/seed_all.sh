#!/usr/bin/env bash
# Evaluates every stored seeded change against its property's check. usage: seed_all.sh [tier] [ids...]
cd "$(dirname "${BASH_SOURCE[0]}")/.." || exit 1
TIER="${1:-quick}"; shift
IDS="$*"; [ -z "$IDS" ] && IDS=$(ls seeded | grep '^C')
miss=0
for name in $IDS; do
  id=${name%%-*} # seeded/C07-r2 is a second seeded change for C07
  out=$(scripts/seed_eval.sh $id "$PWD/seeded/$name/patch.diff" $TIER 2>&1)
  r=$(echo "$out" | grep '^SEED' | tail -1)
  sig=$(echo "$out" | grep -o "^  $id:[^ ]*" | head -1 | tr -d ' ')
  echo "$name: $r $sig"
  case "$r" in *CAUGHT*) ;; *) miss=1;; esac
done
exit $miss
