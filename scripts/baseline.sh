#!/usr/bin/env bash
# Runs the repository's pinned baseline suite (guard OFF) on a copy of /repo's working tree
# (the e2e suite rewrites files under e2e/, so it never runs inside /repo itself).
# usage: baseline.sh [src-dir]    exit 0 iff the 37 stable tests pass.
set -u
SRC="${1:-/repo}"
export GOFLAGS=-mod=mod GOPROXY=off
unset GOSUMDB || true
W="$(mktemp -d "${TMPDIR:-/tmp}/verif-baseline-XXXXXX")"
trap 'rm -rf "$W"' EXIT
rsync -a --exclude .git "$SRC"/ "$W/repo"/
cd "$W/repo" || exit 2
go test -json -vet=off -count=1 -timeout 25m ./... > "$W/out.json" 2> "$W/err.txt"
python3 - "$W/out.json" <<'PY'
import json,sys
want=set(json.load(open('/verif/scripts/baseline_expected.json'))['stable_pass'])
res={}
for l in open(sys.argv[1]):
    try: e=json.loads(l)
    except Exception: continue
    if e.get('Test') and '/' not in e['Test'] and e.get('Action') in('pass','fail'):
        res[e['Package']+'::'+e['Test']]=e['Action']
bad=[k for k in sorted(want) if res.get(k)!='pass']
print(f"baseline: {sum(1 for k in want if res.get(k)=='pass')}/{len(want)} stable tests pass")
for k in bad: print("  NOT PASSING:",k,res.get(k))
sys.exit(1 if bad else 0)
PY
rc=$?
if [ $rc -ne 0 ]; then tail -20 "$W/err.txt"; fi
exit $rc
