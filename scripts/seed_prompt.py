#!/usr/bin/env python3
"""Prepare scratch worktrees and prompts for seeding sub-agents.

usage: seed_prompt.py [--round N] C02 C04 ...
Round 2+ names the mechanism of the earlier seeded change(s) for that property (from seeded/<id>*/meta.json) so that
the new sub-agent looks elsewhere; output goes to /tmp/seed-<id>-rN, worktree /tmp/wt-<id>-rN.
For each id: git worktree /tmp/wt-<id> of /repo's HEAD, /tmp/seed-<id>/PROMPT.txt holding only the
property text and working instructions. The sub-agent is given nothing from /verif.
"""
import json, os, subprocess, sys

props = {json.loads(l)['id']: json.loads(l) for l in open('/verif/properties.jsonl')}
tmpl = '''You are working on the open-source Go project gopher-fleece/gleece (a build-time generator that parses annotated Go controllers and emits OpenAPI specs and router code for gin/echo/mux/chi/fiber). You have your own scratch git worktree of the repository at {wt} - work ONLY there (never touch /repo or /verif). Put your deliverables in {out}.

Environment (needed in every shell command, the sandbox is offline): `export GOFLAGS=-mod=mod GOPROXY=off` (do NOT set GOSUMDB). `go build ./...` works in the worktree; the existing test suite is run with `go test -vet=off -count=1 ./...` from the worktree root (takes about 1-2 minutes; the packages test/units/gast/versioning and test/visitors/route fail on the pristine tree already and do not count; the e2e suite rewrites some files under e2e/ - ignore those diffs and do not include them in your patch). Never use `git stash`: the stash is shared with other contributors' worktrees of the same repository; save your change with `git diff > file` and undo it with `git apply -R file` or `git checkout -- .` instead.

The property (a behaviour users rely on):

TITLE: {title}
STATEMENT: {statement}
QUANTIFIED OVER: {quant}

Your task: write a realistic change (a plausible regression: a refactoring slip, an off-by-one, a dropped branch, a wrong condition, a cache or ordering mistake - the kind of bug a maintainer could really introduce) to the gleece source code that BREAKS this property while (a) the project still compiles, and (b) the existing test suite still passes exactly as before. Prefer a change that needs something specific to manifest - an unusual but legitimate input, a particular combination of features, a multi-step sequence, or two cooperating sites that each look fine alone - rather than one that ordinary use would expose at once. Do not just delete a feature wholesale. Keep the change small (ideally < 30 changed lines) and confined to non-test source files (Go sources or the .hbs templates under generator/templates).

Deliverables in {out}:
1. patch.diff - `git diff` of your change against the worktree's HEAD (source files only; no e2e/ regenerated files, no test files).
2. A demonstration that FAILS (non-zero exit status) with your change applied and PASSES (exit status 0) without it: either a Go test package (say which directory of the worktree it must be copied to and the `go test` command to run it) or a small self-contained script taking the worktree path as its first argument. Do not pipe the deciding command's exit status away. It should exercise gleece through its real code (the CLI via `go run . generate ...`, or exported package APIs), on a concrete input that you include.
3. notes.md - which source lines you changed and why it breaks the property, what input/sequence is needed for it to manifest, the exact commands you ran to confirm (build, full test suite result summary, demonstration with and without the change), and their outcomes.

Verify everything yourself before finishing: apply the patch, build, run the full suite (compare with the pristine result), run the demonstration with and without the patch. When done, leave the worktree with your change reverted (`git checkout -- . && git clean -fd` inside {wt}) and make sure the deliverables are in {out}. Report briefly what you did.'''

args = sys.argv[1:]
rnd = 1
if args and args[0] == '--round':
    rnd = int(args[1]); args = args[2:]
import glob
for pid in args:
    p = props[pid]
    suffix = '' if rnd == 1 else f'-r{rnd}'
    wt, out = f'/tmp/wt-{pid}{suffix}', f'/tmp/seed-{pid}{suffix}'
    os.makedirs(out, exist_ok=True)
    if not os.path.exists(wt):
        subprocess.check_call(['git', '-C', '/repo', 'worktree', 'add', '-q', '--detach', wt, 'HEAD'])
    text = tmpl.format(wt=wt, out=out, title=p['title'], statement=p['statement'], quant=p['quantifier']['text'])
    if rnd > 1:
        earlier = []
        for mp in sorted(glob.glob(f'/verif/seeded/{pid}*/meta.json')):
            m = json.load(open(mp))
            earlier.append(f"- in {', '.join(m['files'])}: {m['summary']}")
        text += ("\n\nOther contributors have already submitted the following change(s) for this property; yours must use a DIFFERENT mechanism, preferably in a different file or a different facet of the statement:\n" + "\n".join(earlier))
    open(f'{out}/PROMPT.txt', 'w').write(text)
    print(pid, wt, out)
