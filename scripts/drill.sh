#!/usr/bin/env bash
# usage: drill.sh <ID> <name> <sed-expr> <file-relative-to-repo> [more "<sed-expr> <file>" pairs...]
# Applies a mutation to /repo's working tree, runs the quick check, restores the tree.
# Prints: DRILL <ID> <name>: caught|MISSED|inconclusive
ID="$1"; NAME="$2"; shift 2
cd /repo || exit 2
if [ -n "$(git status --porcelain)" ]; then echo "repo dirty"; exit 2; fi
while [ $# -ge 2 ]; do
  before=$(md5sum "$2"); sed -i -E "$1" "$2"; after=$(md5sum "$2")
  if [ "$before" = "$after" ]; then echo "DRILL $ID $NAME: mutation did not apply to $2"; git checkout -- .; exit 2; fi
  shift 2
done
export GOFLAGS=-mod=mod GOPROXY=off
if ! go build ./... 2>/tmp/drill_build.txt; then echo "DRILL $ID $NAME: mutant does not compile"; head -5 /tmp/drill_build.txt; git checkout -- .; exit 2; fi
cd /verif && out=$(./check "$ID" --tier quick 2>&1); rc=$?
git -C /repo checkout -- .
case $rc in
 1) echo "DRILL $ID $NAME: caught ($(echo "$out" | grep -m1 -E '^  [A-Z0-9]+:' | cut -c1-160))";;
 0) echo "DRILL $ID $NAME: MISSED";;
 *) echo "DRILL $ID $NAME: inconclusive"; echo "$out" | tail -5;;
esac
