#!/usr/bin/env bash
# Runs every quick check in turn on /repo's working tree; prints one line per property. usage: all_quick.sh [tier] [ids...]
cd "$(dirname "${BASH_SOURCE[0]}")/.." || exit 1
export GOFLAGS=-mod=mod GOPROXY=off
TIER="${1:-quick}"; shift
IDS="$*"; [ -z "$IDS" ] && IDS="C01 C02 C03 C04 C05 C06 C07 C08 C09 C10 C11 C12 C13 C14 C15 C16 C17 C18 C19 C20"
bad=0
for id in $IDS; do
  out=$(./check $id --tier $TIER 2>&1); rc=$?
  echo "$id rc=$rc $(echo "$out" | grep '^property=' | tail -1)"
  if [ $rc -ne 0 ]; then bad=1; echo "$out" | grep -v '^KNOWN-FINDING' | cut -c1-600 | head -20; fi
done
exit $bad
