#!/usr/bin/env bash
# usage: drill_py.sh <ID> <name> <python code that edits files under /repo (cwd=/repo); must raise if nothing changed>
ID="$1"; NAME="$2"; CODE="$3"
cd /repo || exit 2
if [ -n "$(git status --porcelain)" ]; then echo "repo dirty"; exit 2; fi
if ! python3 -c "$CODE"; then echo "DRILL $ID $NAME: mutation did not apply"; git checkout -- .; exit 2; fi
if [ -z "$(git status --porcelain)" ]; then echo "DRILL $ID $NAME: mutation changed nothing"; exit 2; fi
export GOFLAGS=-mod=mod GOPROXY=off
if ! go build ./... 2>/tmp/drill_build.txt; then echo "DRILL $ID $NAME: mutant does not compile"; head -5 /tmp/drill_build.txt; git checkout -- .; exit 2; fi
cd /verif && out=$(./check "$ID" --tier quick 2>&1); rc=$?
git -C /repo checkout -- .
case $rc in
 1) echo "DRILL $ID $NAME: caught ($(echo "$out" | grep -m1 -E '^  [A-Z0-9]+:' | cut -c1-200))";;
 0) echo "DRILL $ID $NAME: MISSED";;
 *) echo "DRILL $ID $NAME: inconclusive"; echo "$out" | tail -5 | cut -c1-400;;
esac
