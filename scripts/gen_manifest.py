#!/usr/bin/env python3
"""Writes /verif/MANIFEST.json from the table below (one place to keep texts current)."""
import json, os
ROOT = os.path.dirname(os.path.dirname(os.path.abspath(__file__)))

COMMON = "Trusts: rapid (outer: project models; inner: requests, compiled into the project); the route model written by the framework (internal/projgen/router.go) and the oracles in internal/projgen/harness_template.go.txt; httptest recorders / fiber app.Test stand in for sockets; generator preconditions listed in the evidence assumptions (unreserved path values, non-empty headers, no overlapping same-verb routes, one wildcard name per tree position, echo's greedy last parameter)."

CHECKS = {
 "C15": dict(
  technique="property-based testing (rapid): generated route lists + permutation vs brute-force O(n^2) overlap reference",
  text="Generated-input search: lists of route entries (duplicates, near-duplicates, slash noise) are fed to the real paths.FindConflicts; a brute-force overlap predicate transcribed from the statement decides soundness of every reported pair, completeness per entry and permutation-independence of the flagged set. An end-to-end sub-check drives generated projects through ApiValidator. Sampling, not exhaustive.",
  note="Trusts: rapid's generators/shrinker; entries are told apart via unique Meta.Receiver pointers; pairs differing only by a trailing slash are left open (statement does not fix that normalisation).",
  ref="6/C15"),
 "C17": dict(
  technique="model-based (stateful) property testing with rapid: generated edit histories vs set-of-nodes/set-of-edges reference model, invariant after every step",
  text="Generated-input search over edit histories (node insertions of every kind, edge insert/remove by kind or all, node removal, file-version bumps, verbatim repeats) on the real SymbolGraph; after every step every public view (Exists/Get/GetEdges/duality/Children/Parents/Descendants/FindByKind) is compared with a plain reference model that implements the documented removal cascade as a fixpoint. Sampling of an unbounded history space.",
  note="Trusts: rapid; the reference model in props/unit/c17_test.go (edges on base ids; orphan rule as documented in RemoveNode); fabricated AST nodes/file versions stand in for parsed files.",
  ref="6/C17"),
 "C16": dict(
  technique="round-trip property testing with rapid (annotation/JSON5 AST -> printer -> go/parser -> NewAnnotationHolder -> compare with AST) plus invariant checking over arbitrary comment text (rapid skeleton-and-damage generator; native go fuzzing in the thorough tier)",
  text="Three parts. Sites part: one annotation line with a malformed JSON5 object (and a well-formed control) is inserted into the doc comment of each kind of declaration the pipeline reads comments from (controller, route, struct, struct field, alias, enum type, first/last enum constant) of a well-linked project and the real pipeline must return an error for the malformed one; every site x malformation is swept on every run. Text part: arbitrary comment lines (skeleton '@Name(value, {props}) description' filled with token soup and well-formed JSON5, then damaged; raw bytes from the native fuzzer in the thorough tier) are parsed and the result must satisfy the relations the statement implies for every input: each line is one attribute or one free-text line, attributes come from lines starting with their name and in source order, a value is the text its range covers, properties are what the covered text decodes to as a single JSON5 value (nothing dropped), a description is the tail of its line. Grammar part: comment blocks are drawn as ASTs (annotation name/value/JSON5 property tree/description, free text, near-miss lines, malformed JSON5), printed by an independent JSON5 printer, embedded in a real Go file and parsed back through go/parser, gast.MapDocListToCommentBlock and annotations.NewAnnotationHolder; the AST is the oracle for attributes, order, free text, entity description, error on malformed JSON5 and the value/properties ranges. Sampling.",
  note="Trusts: rapid, go/parser, the harness's JSON5 printer and number semantics; generator preconditions listed in the evidence assumptions (no blank before the separator comma, near-misses limited to unambiguous non-forms); one known finding (F-C16-1) excluded by construction and replayed as witness.",
  ref="6/C16"),
 "C14": dict(
  technique="property-based testing (rapid) of emitters and annotation helpers with arbitrary validator strings/type names/property bags; real CLI runs over generated hostile projects and configs; native fuzzing in the thorough tier",
  text="Generated-input search at three levels. Config: complete configurations with drawn security scheme catalogues (every scheme type, oauth2 with any subset of flows, null/absent pieces) and 0-2 tree edits are read by the real LoadGleeceConfig and, when accepted, drive the real spec emitters over a fixed API; raw bytes from the native fuzzer in the thorough tier. Unit: arbitrary validator rule lists, type names and JSON5 property bags are pushed through the real swagen.GenerateSpec (3.0 and 3.1) and the annotation/security helpers; the call must return bytes or an error, never panic. Process: generated projects decorated with unsupported constructs, malformed annotations and configs are run through the real CLI binary under a time limit; outcome must be exit 0 with artefacts or non-zero with a message, never a Go panic. Sampling; hangs are only observable as time-outs (reported inconclusive).",
  note="Trusts: rapid; intermediate metadata fabricated for the unit level is restricted to shapes the validators let through; a timeout is reported as inconclusive, not as a violation.",
  ref="6/C14"),
 "C01": dict(
  technique="model-based property testing with rapid: generated project model -> rendered Go module -> real pipeline + both emitters -> compare documented operations with the model",
  text="Generated-input search over whole projects: a structured model (controllers over several packages/files, verbs, route templates with slash noise and URL parameters, hidden/deprecated flags, decoy methods) is rendered to a Go module and analysed by the real gleece pipeline in-process; the set of (verb, path) operations of both the 3.0 and 3.1 documents must equal the non-hidden annotated routes predicted by the model, with operationId, tag and deprecation flag. Both inclusions (invented / dropped) are checked. Sampling of an unbounded project space.",
  note="Trusts: rapid; the renderer and the reference predictions in internal/projgen (path normalisation is the statement's: concatenate and collapse slashes); generator preconditions listed in the evidence assumptions. In-process execution uses the CLI's own entry points.",
  ref="6/C01"),
 "C04": dict(
  technique="model-based property testing with rapid: generated security/inheritance/scheme-catalogue models vs both emitted documents (static half) and vs the checks the generated routers present to the authorization callback (dynamic half, router lab)",
  text="Generated-input search over projects combining method/controller/default security (absent, single, multiple, repeated scheme, with/without scopes), drawn scheme catalogues, the enforce flag and undeclared schemes. The model predicts each operation's effective alternatives; both documents must list exactly those (schemes, scopes, order), declare every scheme as configured, fail when a visible route names an undeclared scheme, and enforce=true must accept iff no route is open. The router lab additionally compares what each generated router actually consults with the document. Sampling.",
  note="Trusts: rapid, the effective-security rule transcribed from the statement (method, else controller, else default), JSON comparison after normalisation. Hidden routes are not required to make the spec fail on an undeclared scheme (nothing in the document names it).",
  ref="6/C04"),
 "C13": dict(
  technique="differential property testing: generated projects x repeated fresh CLI processes x generated enumeration orders (verif-tagged build with VERIF_ORDER) x engines; byte comparison of artefacts",
  text="Generated-input search over projects and schedules: each generated project is built by the real CLI binary in several fresh processes (natural map-order randomness) and by the hook-enabled build under generated enumeration orders (reverse and drawn seeds for source files, graph nodes by kind, loaded packages, import sets); exit status, spec bytes and routes bytes must be identical, the spec must not depend on the routing engine, and with the date comment enabled only the date line may differ between runs. Sampling of projects and orders; only the four instrumented enumeration points are controlled.",
  note="Trusts: rapid; the verif-tagged build differs from the production build only by verifhook.Permute at four call sites (MANIFEST.hooks.source_commits); other map iterations are reached by natural runs only.",
  ref="6/C13", engine="rapid"),
 "C20": dict(
  technique="property-based testing with rapid over configuration documents: valid base + single mutation from a constraint catalogue transcribed from the struct tags, JSON5 renderings, glob subsets; real CLI runs; oracle = constraint table + file-system observations",
  text="Generated-input search over configuration documents: every case is a generated project plus a configuration obtained from a valid one by at most one catalogue mutation (each required section/field dropped, unknown engine/version, malformed URL/e-mail/permission string/security scheme fields, wrong JSON types, broken documents, harmless variations), rendered as JSON or JSON5, optionally with one controller outside the globs and a second run with other permissions. The real CLI is run; the constraint table predicts accept/reject; rejection must come with a message naming the field, before any source is parsed (a glob-matched file with a syntax error must never be reported) and without writing anything; acceptance must put artefacts at the configured paths with the configured mode, package name, engine and version, and only glob-matched files may contribute. Sampling over projects; the mutation catalogue itself is finite and fully enumerated by the thorough tier many times.",
  note="Trusts: rapid; the mutation catalogue in props/process/c20_test.go is a transcription of definitions/structs.go tags; umask 022 set by the harness; the field may be named by JSON key or Go field name.",
  ref="6/C20"),
 "C06": dict(
  technique="model-based property testing with rapid: generated method signatures/annotations vs documented parameters, bodies and responses in both documents (hand-written Go->JSON-schema table)",
  text="Generated-input search over method signatures: parameter lists over every primitive width, enums, aliases, query slices, pointers, context parameters, grouped declarations, wire-name aliases, validators, in every location; return shapes with values, custom error types, @Response and @ErrorResponse codes. For every documented operation of both documents the model predicts parameters (order, name, location, requiredness rule, schema), the JSON or urlencoded body, the success code/schema and each error response. Sampling.",
  note="Trusts: rapid; the requiredness rule and the Go->schema table transcribed from the statement/OpenAPI meaning (props/static/schema_test.go); extra response codes are not judged here (C11).",
  ref="6/C06"),
 "C07": dict(
  technique="model-based + metamorphic property testing with rapid: generated type graphs vs components.schemas; metamorphic pairs P/P' differing in one usage-site validator or one extra route",
  text="Generated-input search over type graphs (structs, enums of several bases, typedef/assigned aliases, nested slices/pointers/maps, embedding, self and forward references, two type packages, unreachable types). The model predicts the reachable closure, each struct's properties/required/allOf, each enum's value set and type, each alias's primitive. A metamorphic step derives P' from P by adding one validator at a usage site of a named type and/or one route using a reachable type; every pre-existing component (other than the struct whose own declaration changed) must be byte-identical in 3.0 and in 3.1. Sampling.",
  note="Trusts: rapid; the reachability/visibility rules transcribed from the statement; known findings replayed as witnesses and excluded by construction from the main profile.",
  ref="6/C07"),
 "C11": dict(
  technique="differential property testing with rapid: one analysis, two emitters; independent OpenAPI reader normalises dialect and diffs structure",
  text="Generated-input search over projects with validator-rich types and parameters: both documents are produced from the same analysis result and compared by an independent reader (no kin-openapi/libopenapi) after translating the dialect differences listed in internal/oas/diff.go; every structural difference is reported with a JSON pointer and a class (the class is the known-finding signature). Sampling.",
  note="Trusts: rapid; the dialect table (exclusive bounds, false/empty vs absent, enum members by value, nullable); descriptions/titles are outside the statement and not compared; rule pairs writing the same keyword are excluded by construction (F-C11-2).",
  ref="6/C11"),
 "C08": dict(
  technique="property-based testing with rapid: generated projects (incl. rejected ones) -> every emitted document checked by an independent OpenAPI validity/closure predicate; real CLI for the no-file-on-failure clause",
  text="Generated-input search over projects aimed at closure (prefix parameters, pointer path parameters, duplicate wire names, types reachable through maps/slices/pointers, varied and undeclared security schemes). Every document gleece emits (both versions in-process, the configured one through the real CLI) is checked by internal/oas (plain encoding/json): $ref resolution, template/path-parameter bijection, unique (name,in), response descriptions, enum member types, unique operationIds, and info/servers/securitySchemes against the configuration; a failing `generate spec` must leave no file; in every other project the command runs over an existing, longer document and must leave exactly the new one. A second part feeds the linkage lab's perturbed projects (catalogue sweep first) and applies the same predicate to whatever gets emitted for them. Sampling.",
  note="Trusts: rapid; the validity predicate in internal/oas/oas.go (it is the statement's list, not a full OpenAPI validator); in-process bytes are cross-checked against the CLI's file on every accepted case.",
  ref="6/C08"),
 "C10": dict(
  technique="property-based testing with rapid: well-formed routes + 0-2 catalogue perturbations; independent WellLinked predicate vs gleece's accept/reject; real CLI for output blocking",
  text="Generated-input search in the linkage lab: routes are modelled as template names, annotations (kind, reference, alias), Go parameters with types, result lists and verb; 0, 1 or 2 perturbations from a catalogue of 32 are applied, after a deterministic sweep of the whole catalogue (two generated base projects with two controllers, one of them carrying a route-conflict warning throughout, every option of every entry); an independent predicate implementing the six link rules of the statement decides whether every route is well-linked; gleece's decision (no error diagnostic and Run() succeeds) must coincide, both directions counted separately; after each rejection the real CLI must exit non-zero and leave neither routes nor spec. Sampling over routes and perturbation pairs.",
  note="Trusts: rapid; the WellLinked predicate in props/static/linkage_test.go (the statement's rules plus the one recorded narrowing: a bare primitive body is ill-formed); known findings matched by rule + culprit perturbation.",
  ref="6/C10"),
 "C18": dict(
  technique="property-based testing with rapid: the C10 perturbation generator with layout noise; the renderer's recorded line spans and annotation values are the oracle for every diagnostic's file, range, covered text, code and uniqueness",
  text="Generated-input search over rejected/warned projects: perturbed routes are rendered with free text and multibyte characters before the annotations, several controllers per file, several files, type groups; the renderer records where every comment block and declaration is. Every diagnostic from Validate() must name the entity's file, have start<=end, lie inside the file and inside the entity's comment or declaration, cover text equal to an annotation value for value-anchored codes, carry the code/severity expected for the single perturbation applied, and be unique (the catalogue sweep of C10 runs first; doc comments are indented in most routes); the CLI's error text must not list a diagnostic twice. Sampling.",
  note="Trusts: rapid; the renderer's span bookkeeping; the expected-code table transcribed from the validators; columns accepted in runes or bytes.",
  ref="6/C18"),
 "C19": dict(
  technique="stateful property testing with rapid: generated call histories on one GleecePipeline vs a fresh pipeline; equality of reduction results, diagnostics, graph size and generated artefacts",
  text="Generated-input search over projects x call histories (GenerateGraph / Validate / GenerateIntermediate / Run in any order after the first graph generation) on one long-lived pipeline; every reduction result must equal the first of the session and a brand-new session's result (import sets compared as sets), Validate() must repeat its diagnostics, node and edge counts and the enum/struct payloads obtained through the public graph API must stay constant and equal a fresh session's, and the spec and routes bytes generated from the session's last result must equal those of the fresh session. Sampling.",
  note="Trusts: rapid; canonical JSON of GleeceFlattenedMetadata as the equality; in-process driving through public pipeline methods.",
  ref="6/C19"),
 "C09": dict(
  technique="property-based testing with rapid: generated projects biased to template concatenation hazards -> real gleece for all five engines -> go/parser + go vet (type-check) + gofmt as validity predicate; attribution of failures by re-running a renamed project",
  text="Generated-input search over projects whose parameter names collide with identifiers the handlers declare, whose types come from several packages behind slices/pointers/maps, with every result shape, custom errors by value and pointer, experimental flags, response validation and configured package names. Whenever generation succeeds, each of the five routes files must parse, sit in the configured package and type-check (go vet) against the engine, the user's controllers and the authorization package; gofmt -l is evaluated; a failed generation must leave no file; a sixth file, written by the real `gleece generate spec-and-routes` for one engine, is checked the same way. Compile failures are attributed by experiment (same project with camel-case twins renamed apart, then with the colliding parameters renamed). Sampling.",
  note="Trusts: rapid; go vet as the type checker; the framework's own stubs/auth packages compile (checked by the same run).",
  ref="6/C09"),
 "C02": dict(
  technique="two-level property testing with rapid: generated batch projects -> five real generated routers compiled and mounted -> generated positive and negative request probes; oracle = call trace recorded by controller stubs vs the route model",
  text="Generated-input search over projects and requests: every annotated route (hidden ones included, routes ending in a slash, several verbs per path, a mirrored controller) gets positive probes that must reach exactly that controller method on gin, echo, mux, chi and fiber; one engine per project (a function of the project) is served from the routes file the real `gleece generate spec-and-routes` wrote, the other four from in-process generation; negative probes obtained by mutation (other verb, extra/missing/changed segment, another controller's prefix, would-be paths of decoy methods) must reach no controller on any engine. The route model is the same object C01's prediction uses, so documented subset-of served and the difference being the hidden routes follow. Sampling over projects (few) and requests (thousands).",
  note=COMMON, ref="6/C02"),
 "C03": dict(
  technique="two-level property testing with rapid: generated projects x generated authorization policies x valid/invalid requests; oracle = ordered trace of authorization checks and controller calls on five mounted routers",
  text="Generated-input search over security configurations (method / controller / default, several alternatives, scopes) and per-request approve/refuse policies combined with valid and deliberately invalid parameters. From the trace: the controller runs only if an alternative of the model's effective security was fully approved earlier in the trace; the checks consulted are the prefix-closed walk of the alternatives in order; when all are refused there is no call, the last refusal's status and message/custom payload are returned and never a 422 (the gate precedes parsing); unsecured routes consult nothing. Sampling.",
  note=COMMON, ref="6/C03"),
 "C05": dict(
  technique="two-level property testing with rapid: typed value generators per declared Go type and location (boundaries, unicode, reserved characters) + absent / ill-typed / validator-violating states; round trip request -> controller arguments on five routers",
  text="Generated-input search over parameter lists (every primitive width, enums, aliases, query slices, pointers, context parameters, JSON bodies, form fields, wire-name aliases, validators) and requests in which each parameter is independently valid, absent, ill-typed or validator-violating; path values range over reserved characters and unicode, header values may be empty, values that look like their own transport encoding (%41, a+b) are drawn one time in six, and parameter names are repeated in locations they are not declared in. All valid => exactly one call whose recorded arguments equal the sent values position by position (nil iff an optional pointer is absent, context non-nil); otherwise 422 and no call; a crashing handler is a violation. Sampling.",
  note=COMMON+" Validator semantics re-implemented for required/gt/gte/lt/lte/min/max/len/oneof and example-based for email/uuid/ipv4/hostname; other rules and slice-level validators leave the outcome unconstrained.", ref="6/C05"),
 "C12": dict(
  technique="differential property testing with rapid: the same generated requests against the five routers generated from one project; tuples (call, arguments, status, JSON body) compared",
  text="Generated-input search over requests of every kind (valid, missing/ill-typed/validator-violating parameters, malformed bodies, refusals, operation errors of plain and custom error types, custom status codes): the five engines must invoke the same method with equal arguments (or none) and answer with the same status and JSON-equivalent body; any disagreement names the odd engine. Sampling.",
  note=COMMON+" Content-Type is not compared (the statement speaks of status and JSON-equivalent body).", ref="6/C12"),
}

NOT_APPLICABLE = []

def main():
    checks = []
    for pid in sorted(CHECKS):
        c = CHECKS[pid]
        checks.append({
            "property_id": pid,
            "quick_cmd": f"./check {pid} --tier quick",
            "thorough_cmd": f"./check {pid} --tier thorough",
            "evidence_file": f"/verif/evidence/{pid}.json",
            "replay_cmd_template": f"./check {pid} --replay {{path}}",
            "engine": c.get("engine", "rapid"),
            "level_claimed": {"category": "exploration", "text": c["text"], "design_ref": "DESIGN.md section " + c["ref"]},
            "level_note": c["note"],
            "technique": c["technique"],
        })
    claimed = set(CHECKS)
    props = [json.loads(l)["id"] for l in open(os.path.join(ROOT, "properties.jsonl"))]
    na = [x for x in NOT_APPLICABLE if x["property_id"] not in claimed]
    listed = claimed | {x["property_id"] for x in na}
    for p in props:
        if p not in listed:
            na.append({"property_id": p, "reason": "check not built yet in this session; planned as property-based testing per DESIGN.md section 6 (will be claimed once its check exists)"})
    hook_commits = [l.strip() for l in open(os.path.join(ROOT, "scripts", "hook_commits.txt"))] if os.path.exists(os.path.join(ROOT, "scripts", "hook_commits.txt")) else []
    m = {
        "version": 1,
        "setup_cmd": "./scripts/setup.sh",
        "hooks": {
            "guard": "verif",
            "enable": "go build -tags verif (only the C13 order-permutation lab builds /repo with the tag; every other check links the untagged tree)",
            "baseline_off_cmd": "./scripts/baseline.sh",
            "source_commits": hook_commits,
            "add_only": True,
        },
        "engines": [
            {"name": "rapid", "path": "/verif/props", "serves_properties": sorted(CHECKS), "kind_free_text": "property-based testing with pgregory.net/rapid v1.3.0 (generators, shrinking); every quick and thorough command is decided by it"},
            {"name": "go-native-fuzz", "path": "/verif/props/unit", "serves_properties": ["C14", "C16"], "kind_free_text": "go test -fuzz (coverage-guided, 16 workers, 5 minutes per target) in the thorough tier only: FuzzC14Config (configuration bytes) and FuzzC16Text (comment text); the semantic oracle sits inside the target, a failing input is written as an ordinary replay file"},
        ],
        "checks": checks,
        "not_applicable": na,
        "notes": "All checks: ./check <ID> --tier quick|thorough; exit 0 held / 1 violation (VIOLATION line with replay file) / 2 inconclusive (harness problem, never a verdict). VERIF_SEED selects the rapid seed. known_findings.json lists recorded/fixed defects.",
    }
    json.dump(m, open(os.path.join(ROOT, "MANIFEST.json"), "w"), indent=1)
    print("wrote MANIFEST.json with", len(checks), "checks;", len(na), "not_applicable")

main()
