package unit

import (
	"fmt"
	"go/ast"
	"go/parser"
	"go/token"
	"math"
	"reflect"
	"strconv"
	"strings"
	"testing"
	"unicode/utf8"

	"github.com/gopher-fleece/gleece/v2/core/annotations"
	"github.com/gopher-fleece/gleece/v2/gast"
	"pgregory.net/rapid"

	"verif/internal/ev"
	"verif/internal/harness"
)

// C16 — annotation comments parse back to exactly what was written.
//
// A comment block is generated as a list of line ASTs, printed by a JSON5/annotation
// printer written for this harness, embedded in a real Go file (random line/column origin),
// parsed with go/parser, mapped with gast.MapDocListToCommentBlock and handed to
// annotations.NewAnnotationHolder. The oracle is the AST itself.

type j5 struct {
	Kind     string   `json:"k"` // obj arr str num bool null
	Keys     []string `json:"keys,omitempty"`
	KeyStyle []int    `json:"ks,omitempty"` // 0 bare, 1 single-quoted, 2 double-quoted
	Vals     []j5     `json:"vals,omitempty"`
	Str      string   `json:"s,omitempty"`
	Quote    int      `json:"q,omitempty"` // 0 double, 1 single
	Num      string   `json:"n,omitempty"` // literal text of the number
	Bool     bool     `json:"b,omitempty"`
	Trailing bool     `json:"t,omitempty"` // trailing comma
	Pad      int      `json:"p,omitempty"` // blanks after separators
}

type c16Line struct {
	Kind  string `json:"kind"` // ann | text | near | bad
	Name  string `json:"name,omitempty"`
	Paren bool   `json:"paren,omitempty"`
	Value string `json:"value,omitempty"`
	Props *j5    `json:"props,omitempty"`
	Sep   int    `json:"sep,omitempty"` // blanks after the comma before the props
	Desc  string `json:"desc,omitempty"`
	Gap   int    `json:"gap,omitempty"`  // extra blanks before the description
	Text  string `json:"text,omitempty"` // free text / near-miss / malformed props (raw)
}

type c16Model struct {
	Lines      []c16Line `json:"lines"`
	BlankLines int       `json:"blank"`   // blank lines before the block (line origin)
	Grouped    bool      `json:"grouped"` // inside type ( ... ) => column origin 1
	Excluded   int       `json:"excluded,omitempty"`
}

// ---- printing ---------------------------------------------------------------------

func j5Quote(s string, q int) string {
	quote := byte('"')
	if q == 1 {
		quote = '\''
	}
	var sb strings.Builder
	sb.WriteByte(quote)
	for _, r := range s {
		switch {
		case r == rune(quote):
			sb.WriteByte('\\')
			sb.WriteRune(r)
		case r == '\\':
			sb.WriteString(`\\`)
		case r == '\n':
			sb.WriteString(`\n`)
		case r == '\t':
			sb.WriteString(`\t`)
		case r < 0x20 || r == 0x7f || r == 0x2028 || r == 0x2029:
			sb.WriteString(fmt.Sprintf(`\u%04x`, r))
		default:
			sb.WriteRune(r)
		}
	}
	sb.WriteByte(quote)
	return sb.String()
}

func (v j5) print() string {
	pad := strings.Repeat(" ", v.Pad)
	switch v.Kind {
	case "obj":
		parts := make([]string, len(v.Keys))
		for i, k := range v.Keys {
			ks := k
			switch v.KeyStyle[i] {
			case 1:
				ks = j5Quote(k, 1)
			case 2:
				ks = j5Quote(k, 0)
			}
			parts[i] = ks + ":" + pad + v.Vals[i].print()
		}
		s := strings.Join(parts, ","+pad)
		if v.Trailing && len(parts) > 0 {
			s += ","
		}
		return "{" + pad + s + pad + "}"
	case "arr":
		parts := make([]string, len(v.Vals))
		for i := range v.Vals {
			parts[i] = v.Vals[i].print()
		}
		s := strings.Join(parts, ","+pad)
		if v.Trailing && len(parts) > 0 {
			s += ","
		}
		return "[" + s + "]"
	case "str":
		return j5Quote(v.Str, v.Quote)
	case "num":
		return v.Num
	case "bool":
		return strconv.FormatBool(v.Bool)
	default:
		return "null"
	}
}

// expected is the Go value the statement promises ("properties equal to the JSON5 object").
func (v j5) expected() any {
	switch v.Kind {
	case "obj":
		m := map[string]any{}
		for i, k := range v.Keys {
			m[k] = v.Vals[i].expected()
		}
		return m
	case "arr":
		a := make([]any, len(v.Vals))
		for i := range v.Vals {
			a[i] = v.Vals[i].expected()
		}
		return a
	case "str":
		return v.Str
	case "num":
		return j5NumValue(v.Num)
	case "bool":
		return v.Bool
	default:
		return nil
	}
}

func j5NumValue(lit string) float64 {
	s := strings.TrimPrefix(lit, "+")
	neg := strings.HasPrefix(s, "-")
	s = strings.TrimPrefix(s, "-")
	var f float64
	if strings.HasPrefix(s, "0x") || strings.HasPrefix(s, "0X") {
		u, _ := strconv.ParseUint(s[2:], 16, 64)
		f = float64(u)
	} else {
		f, _ = strconv.ParseFloat(s, 64)
	}
	if neg {
		f = -f
	}
	return f
}

func (l c16Line) print() string {
	switch l.Kind {
	case "ann":
		s := "// @" + l.Name
		if l.Paren {
			s += "(" + l.Value
			if l.Props != nil {
				s += "," + strings.Repeat(" ", l.Sep) + l.Props.print()
			}
			s += ")"
		}
		if l.Desc != "" {
			s += strings.Repeat(" ", 1+l.Gap) + l.Desc
		}
		return s
	case "bad":
		return "// @" + l.Name + "(" + l.Value + ", " + l.Text + ")"
	default:
		return l.Text
	}
}

// ---- generation -------------------------------------------------------------------

var c16Names = []string{"Route", "Method", "Query", "Path", "Header", "Body", "FormField", "Security", "Description", "Tag",
	"Response", "ErrorResponse", "Hidden", "Deprecated", "TemplateContext", "Foo", "x_1", "A9"}

const c16ValueAlphabet = `abcXYZ019_-/\{} `

var c16TextRunes = []rune("abc XYZ 019 .,;:!?()[]{}<>'\"`@#$%^&*-_=+/\\|~ üéñ日本語😀←")

func c16Text(min, max int) *rapid.Generator[string] {
	return rapid.Custom(func(t *rapid.T) string {
		rs := rapid.SliceOfN(rapid.SampledFrom(c16TextRunes), min, max).Draw(t, "runes")
		return string(rs)
	})
}

func c16ValueGen() *rapid.Generator[string] {
	return rapid.Custom(func(t *rapid.T) string {
		if rapid.Bool().Draw(t, "plain") {
			return rapid.SampledFrom([]string{"id", "name", "/users/{id}", "GET", "200", "X-Api-Key", "a b", `a\b`, "{x}", "user_id", "/"}).Draw(t, "v")
		}
		rs := rapid.SliceOfN(rapid.SampledFrom([]rune(c16ValueAlphabet)), 1, 12).Draw(t, "vr")
		s := strings.TrimSpace(string(rs)) // no leading/trailing blank (generator precondition)
		if s == "" {
			s = "v"
		}
		return s
	})
}

func j5Gen(depth int) *rapid.Generator[j5] {
	return rapid.Custom(func(t *rapid.T) j5 {
		kinds := []string{"str", "str", "num", "bool", "null"}
		if depth > 0 {
			kinds = append(kinds, "obj", "arr", "obj", "arr")
		}
		switch rapid.SampledFrom(kinds).Draw(t, "kind") {
		case "obj":
			return j5ObjGen(depth-1).Draw(t, "obj")
		case "arr":
			n := rapid.IntRange(0, 3).Draw(t, "n")
			v := j5{Kind: "arr", Trailing: rapid.Bool().Draw(t, "trail"), Pad: rapid.IntRange(0, 1).Draw(t, "pad")}
			for i := 0; i < n; i++ {
				v.Vals = append(v.Vals, j5Gen(depth-1).Draw(t, "elem"))
			}
			return v
		case "str":
			s := rapid.OneOf(
				c16Text(0, 10),
				rapid.SampledFrom([]string{"}", "{", "})", "({", "a,b", "x) y", `"`, `'`, `\`, "}) tail", ")", "a\tb", "line\nbreak", "x\u0001y"}),
			).Draw(t, "s")
			return j5{Kind: "str", Str: s, Quote: rapid.IntRange(0, 1).Draw(t, "q")}
		case "num":
			return j5{Kind: "num", Num: rapid.SampledFrom([]string{"0", "1", "-1", "42", "3.5", "-0.25", "1e3", "2E-2", "0x1F", "+7", "123456789", "1.5e10"}).Draw(t, "num")}
		case "bool":
			return j5{Kind: "bool", Bool: rapid.Bool().Draw(t, "b")}
		}
		return j5{Kind: "null"}
	})
}

func j5ObjGen(depth int) *rapid.Generator[j5] {
	return rapid.Custom(func(t *rapid.T) j5 {
		n := rapid.IntRange(0, 4).Draw(t, "nkeys")
		v := j5{Kind: "obj", Trailing: rapid.Bool().Draw(t, "trail"), Pad: rapid.IntRange(0, 1).Draw(t, "pad")}
		for i := 0; i < n; i++ {
			style := rapid.IntRange(0, 2).Draw(t, "kstyle")
			var key string
			if style == 0 {
				key = rapid.SampledFrom([]string{"name", "scopes", "a", "b", "_x", "enabled", "validate", "k9"}).Draw(t, "key")
			} else {
				key = rapid.OneOf(rapid.SampledFrom([]string{"name", "a b", "x-y", "}", "({", "ü", "a,b"}), c16Text(1, 5)).Draw(t, "qkey")
			}
			key = fmt.Sprintf("%s%d", key, i) // unique keys by construction
			if style == 0 && !isBareKey(key) {
				style = 2
			}
			v.Keys = append(v.Keys, key)
			v.KeyStyle = append(v.KeyStyle, style)
			v.Vals = append(v.Vals, j5Gen(depth).Draw(t, "val"))
		}
		return v
	})
}

func isBareKey(k string) bool {
	for i, r := range k {
		if !(r == '_' || (r >= 'a' && r <= 'z') || (r >= 'A' && r <= 'Z') || (i > 0 && r >= '0' && r <= '9')) {
			return false
		}
	}
	return k != ""
}

var c16NearMisses = []string{
	"// @Query(a)tail", "// @Query(ü)", "// @", "// @Query(", "// @Query(a", "// text @Query(a)", "///", "//",
	"// @Query(a, {b: 1}", "// @Query(a, b)", "// @Query(a,{b:1})x", "// @Query(a;b)", "// @-x", "// @Query(a, {b: 1}, c)",
	"// see @Route(/x) for details", "// @Query(a:b)", "// e-mail me @ home",
}

func c16DescBad(desc string) bool {
	// known finding: "})" followed by a blank or end of line inside a description
	for i := 0; i+1 < len(desc); i++ {
		if desc[i] == '}' && desc[i+1] == ')' {
			if i+2 == len(desc) || desc[i+2] == ' ' || desc[i+2] == '\t' {
				return true
			}
		}
	}
	return false
}

func c16LineGen(allowSwallow bool, excluded *int) *rapid.Generator[c16Line] {
	return rapid.Custom(func(t *rapid.T) c16Line {
		switch rapid.SampledFrom([]string{"ann", "ann", "ann", "ann", "text", "text", "near"}).Draw(t, "lk") {
		case "text":
			txt := strings.TrimSpace(c16Text(0, 20).Draw(t, "text"))
			if strings.HasPrefix(txt, "@") {
				txt = "x" + txt
			}
			if txt == "" {
				return c16Line{Kind: "text", Text: "//"}
			}
			return c16Line{Kind: "text", Text: "// " + txt}
		case "near":
			return c16Line{Kind: "near", Text: rapid.SampledFrom(c16NearMisses).Draw(t, "near")}
		}
		l := c16Line{Kind: "ann", Name: rapid.SampledFrom(c16Names).Draw(t, "name")}
		if rapid.IntRange(0, 4).Draw(t, "paren") > 0 {
			l.Paren = true
			l.Value = c16ValueGen().Draw(t, "value")
			if rapid.IntRange(0, 2).Draw(t, "hasProps") > 0 {
				p := j5ObjGen(2).Draw(t, "props")
				l.Props = &p
				l.Sep = rapid.IntRange(0, 2).Draw(t, "sep")
			}
		}
		if rapid.IntRange(0, 2).Draw(t, "hasDesc") > 0 {
			d := strings.TrimSpace(rapid.OneOf(
				c16Text(1, 25),
				rapid.SampledFrom([]string{"see (docs) {b: 1}) here", "ends with })", "a }) b", "{x})y", "plain words", "(parenthesised)", "trailing }", ") leading"}),
			).Draw(t, "desc"))
			if l.Props != nil && c16DescBad(d) && !allowSwallow {
				*excluded++
				d = strings.ReplaceAll(d, "})", "} )")
			}
			l.Desc = d
			l.Gap = rapid.IntRange(0, 2).Draw(t, "gap")
		}
		return l
	})
}

func c16Gen(t *rapid.T) c16Model {
	excluded := 0
	m := c16Model{
		Lines:      rapid.SliceOfN(c16LineGen(false, &excluded), 0, 10).Draw(t, "lines"),
		BlankLines: rapid.IntRange(0, 5).Draw(t, "blank"),
		Grouped:    rapid.Bool().Draw(t, "grouped"),
	}
	m.Excluded = excluded
	// Sometimes one annotation carries malformed JSON5 inside balanced braces: the whole block must be refused.
	if len(m.Lines) > 0 && rapid.IntRange(0, 7).Draw(t, "malformed") == 0 {
		i := rapid.IntRange(0, len(m.Lines)-1).Draw(t, "where")
		m.Lines[i] = c16Line{Kind: "bad", Name: "Query", Value: "a",
			Text: rapid.SampledFrom([]string{"{a: }", "{a 1}", "{a: 1,,}", "{: 1}", "{a: [1, }", "{a: 'x}", "{a: tru}", "{a: 1 b: 2}", "{{}}", "{a: 1]}"}).Draw(t, "badjson")}
	}
	return m
}

// ---- execution --------------------------------------------------------------------

func (m c16Model) source() (src string, firstLine int, indent string) {
	var sb strings.Builder
	sb.WriteString("package p\n")
	sb.WriteString(strings.Repeat("\n", m.BlankLines))
	if m.Grouped {
		indent = "\t"
		sb.WriteString("type (\n")
	}
	firstLine = 1 + m.BlankLines + 1
	if m.Grouped {
		firstLine++
	}
	for _, l := range m.Lines {
		sb.WriteString(indent + l.print() + "\n")
	}
	sb.WriteString(indent + "T struct{}\n")
	if m.Grouped {
		sb.WriteString(")\n")
	} else {
		// ungrouped: "type T struct{}"
		s := sb.String()
		s = strings.TrimSuffix(s, "T struct{}\n") + "type T struct{}\n"
		return s, firstLine, indent
	}
	return sb.String(), firstLine, indent
}

func c16Parse(m c16Model) (gast.CommentBlock, []string, error) {
	src, _, _ := m.source()
	fset := token.NewFileSet()
	f, err := parser.ParseFile(fset, "/proj/c16.go", src, parser.ParseComments)
	if err != nil {
		return gast.CommentBlock{}, nil, fmt.Errorf("harness: generated source does not parse: %v\n%s", err, src)
	}
	var doc *ast.CommentGroup
	ast.Inspect(f, func(n ast.Node) bool {
		switch d := n.(type) {
		case *ast.GenDecl:
			if !m.Grouped && d.Doc != nil {
				doc = d.Doc
			}
		case *ast.TypeSpec:
			if m.Grouped && d.Doc != nil {
				doc = d.Doc
			}
		}
		return true
	})
	var list []*ast.Comment
	if doc != nil {
		list = doc.List
	}
	return gast.MapDocListToCommentBlock(list, fset), strings.Split(src, "\n"), nil
}

func c16Check(m c16Model, rec *ev.Recorder) []harness.Viol {
	var viols []harness.Viol
	for i := 0; i < m.Excluded; i++ {
		rec.Exclude("F-C16-1 description with '})' after a properties object")
	}
	add := func(sig, format string, a ...any) {
		viols = append(viols, harness.Viol{Signature: "C16:" + sig, Message: fmt.Sprintf(format, a...) + "\nblock:\n" + m.show()})
	}
	block, srcLines, err := c16Parse(m)
	if err != nil {
		return []harness.Viol{{Signature: "C16:harness", Message: err.Error()}}
	}
	if len(block.Comments) != len(m.Lines) {
		// e.g. an empty block, or go/parser split the group: harness precondition, not gleece
		if len(m.Lines) == 0 {
			return nil
		}
		return []harness.Viol{{Signature: "C16:harness", Message: fmt.Sprintf("go/parser attached %d comments, generated %d", len(block.Comments), len(m.Lines))}}
	}
	holder, herr := annotations.NewAnnotationHolder(block, annotations.CommentSourceController)

	hasBad := false
	for _, l := range m.Lines {
		if l.Kind == "bad" {
			hasBad = true
		}
	}
	if hasBad {
		if herr == nil {
			add("malformed-json5-accepted", "a line with malformed JSON5 properties was accepted without error")
		}
		return viols
	}
	if herr != nil {
		// classify: description swallowed by the greedy properties group?
		for _, l := range m.Lines {
			if l.Kind == "ann" && l.Props != nil && c16DescBad(l.Desc) {
				add("description-swallowed-by-props-group", "well-formed line rejected: %v", herr)
				return viols
			}
		}
		add("wellformed-rejected", "well-formed block rejected: %v", herr)
		return viols
	}

	// expected attributes / free text
	var wantAttrs []c16Line
	type free struct {
		idx  int
		text string
	}
	var wantFree []free
	for i, l := range m.Lines {
		if l.Kind == "ann" {
			wantAttrs = append(wantAttrs, l)
		} else {
			wantFree = append(wantFree, free{i, strings.Trim(strings.TrimPrefix(l.Text, "//"), " ")})
		}
	}
	attrs := holder.Attributes()
	nonAttrs := holder.NonAttributeComments()
	if len(attrs) != len(wantAttrs) {
		add("attribute-count", "got %d attributes, wrote %d annotation lines", len(attrs), len(wantAttrs))
		return viols
	}
	if len(nonAttrs) != len(wantFree) {
		add("free-text-count", "got %d free-text lines, wrote %d", len(nonAttrs), len(wantFree))
		return viols
	}
	for i, w := range wantAttrs {
		g := attrs[i]
		if g.Name != w.Name {
			add("name", "attribute %d: name %q, wrote %q", i, g.Name, w.Name)
		}
		if g.Value != w.Value {
			add("value", "attribute %d (@%s): value %q, wrote %q", i, w.Name, g.Value, w.Value)
		}
		if g.Description != w.Desc {
			sig := "description"
			if w.Props != nil && c16DescBad(w.Desc) {
				sig = "description-swallowed-by-props-group"
			}
			add(sig, "attribute %d (@%s): description %q, wrote %q", i, w.Name, g.Description, w.Desc)
		}
		if w.Props == nil {
			if len(g.Properties) != 0 {
				add("properties-invented", "attribute %d (@%s): properties %v, wrote none", i, w.Name, g.Properties)
			}
		} else {
			want := w.Props.expected().(map[string]any)
			if d := j5Diff("", any(map[string]any(g.Properties)), any(want)); d != "" {
				add("properties", "attribute %d (@%s): %s (written %s)", i, w.Name, d, w.Props.print())
			}
			// PropertiesRange slices the source line to the rendered properties
			pr := g.PropertiesRange
			if txt, ok := c16Slice(srcLines, pr.StartLine, pr.StartCol, pr.EndLine, pr.EndCol); !ok || txt != w.Props.print() {
				add("properties-range", "attribute %d (@%s): PropertiesRange %v covers %q, properties are %q", i, w.Name, pr, txt, w.Props.print())
			}
		}
		if w.Paren {
			vr := g.GetValueRange()
			if txt, ok := c16Slice(srcLines, vr.StartLine, vr.StartCol, vr.EndLine, vr.EndCol); !ok || txt != w.Value {
				add("value-range", "attribute %d (@%s): GetValueRange %v covers %q, value is %q", i, w.Name, vr, txt, w.Value)
			}
		}
		if g.Comment.Index != c16IndexOfNth(m, i) {
			add("source-order", "attribute %d (@%s) is attached to comment index %d", i, w.Name, g.Comment.Index)
		}
	}
	for i, w := range wantFree {
		if nonAttrs[i].Index != w.idx || nonAttrs[i].Value != w.text {
			add("free-text", "free text %d: index %d value %q, wrote index %d %q", i, nonAttrs[i].Index, nonAttrs[i].Value, w.idx, w.text)
		}
	}
	// entity description
	wantDesc := ""
	foundDescAttr := false
	for _, l := range wantAttrs {
		if l.Name == "Description" {
			wantDesc, foundDescAttr = l.Desc, true
			break
		}
	}
	if !foundDescAttr {
		var lead []string
		for _, l := range m.Lines {
			if l.Kind == "ann" {
				break
			}
			lead = append(lead, strings.Trim(strings.TrimPrefix(l.Text, "//"), " "))
		}
		wantDesc = strings.Join(lead, "\n")
	}
	if got := holder.GetDescription(); strings.TrimRight(got, "\n ") != strings.TrimRight(wantDesc, "\n ") {
		add("entity-description", "GetDescription()=%q, the statement's rule gives %q", got, wantDesc)
	}
	return viols
}

func c16IndexOfNth(m c16Model, n int) int {
	k := 0
	for i, l := range m.Lines {
		if l.Kind == "ann" {
			if k == n {
				return i
			}
			k++
		}
	}
	return -1
}

// c16Slice extracts [startCol,endCol) of a single source line, columns counted in runes.
func c16Slice(lines []string, sl, sc, el, ec int) (string, bool) {
	if sl != el || sl < 0 || sl >= len(lines) {
		return fmt.Sprintf("<multi-line or out of file: %d..%d>", sl, el), false
	}
	rs := []rune(lines[sl])
	if sc < 0 || ec > len(rs) || sc > ec {
		return fmt.Sprintf("<cols %d..%d outside line of %d runes>", sc, ec, len(rs)), false
	}
	return string(rs[sc:ec]), true
}

func j5Diff(path string, got, want any) string {
	switch w := want.(type) {
	case map[string]any:
		g, ok := got.(map[string]any)
		if !ok {
			return fmt.Sprintf("%s: got %T, want object", path, got)
		}
		if len(g) != len(w) {
			return fmt.Sprintf("%s: got %d keys %v, want %d", path, len(g), reflect.ValueOf(g).MapKeys(), len(w))
		}
		for k, wv := range w {
			gv, ok := g[k]
			if !ok {
				return fmt.Sprintf("%s: key %q missing", path, k)
			}
			if d := j5Diff(path+"."+k, gv, wv); d != "" {
				return d
			}
		}
	case []any:
		g, ok := got.([]any)
		if !ok || len(g) != len(w) {
			return fmt.Sprintf("%s: got %v, want array of %d", path, got, len(w))
		}
		for i := range w {
			if d := j5Diff(fmt.Sprintf("%s[%d]", path, i), g[i], w[i]); d != "" {
				return d
			}
		}
	case float64:
		var gf float64
		switch g := got.(type) {
		case float64:
			gf = g
		case int:
			gf = float64(g)
		case int64:
			gf = float64(g)
		default:
			return fmt.Sprintf("%s: got %T %v, want number %v", path, got, got, w)
		}
		if math.Abs(gf-w) > 1e-9*math.Max(1, math.Abs(w)) {
			return fmt.Sprintf("%s: got %v, want %v", path, gf, w)
		}
	default:
		if !reflect.DeepEqual(got, want) {
			return fmt.Sprintf("%s: got %#v, want %#v", path, got, want)
		}
	}
	return ""
}

func (m c16Model) show() string {
	var sb strings.Builder
	for _, l := range m.Lines {
		sb.WriteString("  " + l.print() + "\n")
	}
	return sb.String()
}

func c16Classify(m c16Model) harness.Class {
	c := harness.Class{}
	hasAnn, hasText, multibyteDesc, trickyString, bad := false, false, false, false, false
	var walk func(v j5)
	walk = func(v j5) {
		if v.Kind == "str" && strings.ContainsAny(v.Str, "{}(),") {
			trickyString = true
		}
		for _, k := range v.Keys {
			if strings.ContainsAny(k, "{}(),") {
				trickyString = true
			}
		}
		for _, x := range v.Vals {
			walk(x)
		}
	}
	for _, l := range m.Lines {
		switch l.Kind {
		case "ann":
			hasAnn = true
			if l.Props != nil {
				walk(*l.Props)
			}
			if len(l.Desc) != utf8.RuneCountInString(l.Desc) {
				multibyteDesc = true
			}
		case "bad":
			bad = true
		default:
			hasText = true
		}
	}
	if trickyString {
		c.Labels = append(c.Labels, "props-string-with-brace-paren-comma")
	}
	if multibyteDesc {
		c.Labels = append(c.Labels, "multibyte-description")
	}
	if hasAnn && hasText {
		c.Labels = append(c.Labels, "interleaved-free-text")
	}
	if bad {
		c.Labels = append(c.Labels, "malformed-json5")
	}
	c.NonTrivial = trickyString || multibyteDesc || (hasAnn && hasText) || bad
	return c
}

func TestC16(t *testing.T) {
	harness.Run(t, harness.Prop[c16Model]{
		ID:       "C16",
		Gen:      c16Gen,
		Check:    func(m c16Model, rec *ev.Recorder) []harness.Viol { return c16Check(m, rec) },
		Classify: c16Classify,
		Sample:   func(m c16Model) any { return strings.Split(strings.TrimRight(m.show(), "\n"), "\n") },
		Rule: "rapid draws comment blocks of 0-10 line ASTs (annotation {name, (value[, JSON5 props]), description} | free text | near-miss line | " +
			"one annotation with malformed JSON5), prints them with a JSON5 printer written for the harness (bare/single/double-quoted keys, trailing commas, nested " +
			"objects/arrays, strings containing braces, parentheses, commas, quotes, escapes and unicode, decimal/exponent/hex/signed numbers), embeds the block in a real Go file " +
			"at a random line/column origin, parses it with go/parser and hands gast.MapDocListToCommentBlock's result to NewAnnotationHolder. Oracle = the AST (round trip): " +
			"names, values, deep-equal properties, descriptions, source order, free-text lines with index, GetDescription rule, error on malformed JSON5, and " +
			"PropertiesRange/GetValueRange slicing the source line to the written text. Non-trivial = a props string/key containing brace/paren/comma, a multibyte description, " +
			"free text interleaved with annotations, or a malformed-JSON5 line; distinct = canonical JSON of the block.",
		Assume: []string{
			"values have no leading/trailing blank and the separator is a comma followed by blanks (blanks before the comma are part of the value alphabet)",
			"near-miss lines are restricted to shapes that are not of the documented form under any reading (no '//@X', no '//  @X')",
			"descriptions that contain '})' followed by a blank/end after a properties object are excluded by construction (known finding F-C16-1) and counted",
			"GetDescription is compared modulo trailing blank lines",
		},
		Floors: map[string]float64{"nontrivial": 0.4, "props-string-with-brace-paren-comma": 0.1, "multibyte-description": 0.1, "malformed-json5": 0.03},
	})
}
