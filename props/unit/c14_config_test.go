package unit

import (
	"encoding/json"
	"fmt"
	"os"
	"path/filepath"
	"runtime/debug"
	"strings"
	"sync"
	"testing"

	"github.com/gopher-fleece/gleece/v2/cmd"
	"github.com/gopher-fleece/gleece/v2/definitions"
	"github.com/gopher-fleece/gleece/v2/generator/swagen"
	"pgregory.net/rapid"

	"verif/internal/ev"
	"verif/internal/harness"
	"verif/internal/known"
)

// C14, third part: arbitrary configuration files.
//
// The configuration is read, validated and - when it is accepted - handed to the spec emitters together
// with a small fixed API whose routes use the configured security schemes. The statement's clause decided
// here: any configuration file either is rejected with an error or leads to a result; nothing panics.
// (The project-level half runs whole commands; this half reaches the configuration-dependent code at a
// rate of 10^4 files per second, which is what the scheme/flow/info combinations need.)

type c14CfgModel struct {
	Text string `json:"text"` // the bytes of gleece.config.json
}

var c14CfgDir = sync.OnceValue(func() string {
	d, err := os.MkdirTemp(os.Getenv("VERIF_SCRATCH"), "c14cfg-")
	if err != nil {
		d, _ = os.MkdirTemp("", "c14cfg-")
	}
	return d
})

func c14CfgFixedAPI(cfg *definitions.GleeceConfig) ([]definitions.ControllerMetadata, *definitions.Models) {
	em := emModel{Structs: []emStruct{{Name: "Thing", Fields: []emField{{Name: "id", Type: "string"}}}},
		Routes: []emRoute{{Op: "GetThing", Verb: "GET", Ret: "Thing", ErrType: "error",
			Params: []emParam{{Name: "id", In: "Query", Type: "string"}}}}}
	ctrls, models := em.metadata()
	// every configured scheme is used by the route, with a scope where the scheme declares some
	var sec []definitions.RouteSecurity
	for _, s := range cfg.OpenAPIGeneratorConfig.SecuritySchemes {
		sec = append(sec, definitions.RouteSecurity{SecurityAnnotation: []definitions.SecurityAnnotationComponent{{SchemaName: s.SecurityName, Scopes: []string{"read"}}}})
	}
	for ci := range ctrls {
		for ri := range ctrls[ci].Routes {
			ctrls[ci].Routes[ri].Security = sec
		}
	}
	return ctrls, models
}

func c14CfgCheck(m c14CfgModel, rec *ev.Recorder) (viols []harness.Viol) {
	stage := "load"
	defer func() {
		if r := recover(); r != nil {
			stack := string(debug.Stack())
			site := "unknown"
			for _, l := range strings.Split(stack, "\n") {
				if strings.Contains(l, "gopher-fleece/gleece") && !strings.HasPrefix(l, "\t") {
					site = l
					if i := strings.LastIndex(site, "("); i > 0 {
						site = site[:i]
					}
					site = site[strings.LastIndex(site, "/")+1:]
					break
				}
			}
			if len(stack) > 2500 {
				stack = stack[:2500]
			}
			viols = append(viols, harness.Viol{Signature: "C14:config:panic:" + stage + ":" + site, Message: fmt.Sprintf("panic: %v\nconfiguration:\n%s\n%s", r, m.Text, stack)})
		}
	}()
	path := filepath.Join(c14CfgDir(), fmt.Sprintf("cfg-%d.json", os.Getpid()))
	if err := os.WriteFile(path, []byte(m.Text), 0o644); err != nil {
		if rec != nil {
			rec.Inconclusive(err.Error())
		}
		return nil
	}
	cfg, err := cmd.LoadGleeceConfig(path)
	if err != nil {
		if rec != nil {
			rec.Label("config-rejected", 1)
		}
		if strings.TrimSpace(err.Error()) == "" {
			viols = append(viols, harness.Viol{Signature: "C14:config:rejected-without-message", Message: "configuration rejected with an empty error\n" + m.Text})
		}
		return viols
	}
	if rec != nil {
		rec.Label("config-accepted", 1)
		if len(cfg.OpenAPIGeneratorConfig.SecuritySchemes) > 0 {
			rec.Label("config-accepted-with-schemes", 1)
		}
		for _, s := range cfg.OpenAPIGeneratorConfig.SecuritySchemes {
			if s.Flows != nil {
				rec.Label("config-accepted-with-oauth-flows", 1)
				break
			}
		}
	}
	stage = "emit"
	ctrls, models := c14CfgFixedAPI(cfg)
	out, err := swagen.GenerateSpec(&cfg.OpenAPIGeneratorConfig, ctrls, models, true)
	if err != nil {
		if rec != nil {
			rec.Label("emit-error", 1)
		}
		return viols
	}
	if rec != nil {
		rec.Label("emit-ok", 1)
	}
	if !json.Valid(out) {
		viols = append(viols, harness.Viol{Signature: "C14:config:emitter-invalid-json", Message: "GenerateSpec returned bytes that are not JSON\n" + m.Text})
	}
	return viols
}

// ---- structured generator ------------------------------------------------------------------

var c14JunkValues = []any{nil, "", " ", 0, -1, 1.5, true, false, []any{}, map[string]any{}, "x", "3.0.0", "3.1.0", "3.2.0", "https://example.com", "not a url", "0644", "999",
	strings.Repeat("a", 300), []any{nil}, map[string]any{"a": nil}, "é日本", "\u0000", 1e308, "gin", "oauth2", "apiKey", "http", "openIdConnect", "header", "cookie", "bearer"}

func c14SchemeGen() *rapid.Generator[map[string]any] {
	return rapid.Custom(func(t *rapid.T) map[string]any {
		// mostly values the validation accepts, so that the emitters are reached; one in eight is junk
		mostly := func(label string, valid, junk []string) string {
			if rapid.IntRange(0, 7).Draw(t, label+"Junk") == 0 {
				return rapid.SampledFrom(junk).Draw(t, label+"J")
			}
			return rapid.SampledFrom(valid).Draw(t, label)
		}
		typ := mostly("type", []string{"apiKey", "http", "oauth2", "openIdConnect", "oauth2", "oauth2"}, []string{"mutualTLS", "", "OAuth2"})
		s := map[string]any{"description": "d", "name": mostly("name", []string{"a", "b", "sec1", "Sec-2"}, []string{"1bad", "", " "}), "type": typ}
		switch typ {
		case "apiKey":
			s["in"] = mostly("in", []string{"header", "query", "cookie"}, []string{"body", ""})
			s["fieldName"] = mostly("fieldName", []string{"X-Key", "k"}, []string{"9", ""})
		case "http":
			s["scheme"] = mostly("scheme", []string{"basic", "bearer", "digest"}, []string{"nope", ""})
		case "openIdConnect":
			s["openIdConnectUrl"] = mostly("oidc", []string{"https://example.com/.well-known"}, []string{"nope", ""})
		}
		if typ == "oauth2" || rapid.IntRange(0, 5).Draw(t, "strayFlows") == 0 {
			flows := map[string]any{}
			for _, f := range rapid.SliceOfNDistinct(rapid.SampledFrom([]string{"implicit", "password", "clientCredentials", "authorizationCode", "device"}), 0, 4, func(s string) string { return s }).Draw(t, "flows") {
				fl := map[string]any{}
				if rapid.IntRange(0, 3).Draw(t, "hasAuthUrl") > 0 {
					fl["authorizationUrl"] = "https://example.com/auth"
				}
				if rapid.IntRange(0, 3).Draw(t, "hasTokenUrl") > 0 {
					fl["tokenUrl"] = "https://example.com/token"
				}
				switch rapid.IntRange(0, 4).Draw(t, "scopesKind") {
				case 0:
				case 1:
					fl["scopes"] = nil
				case 2:
					fl["scopes"] = map[string]any{}
				default:
					fl["scopes"] = map[string]any{"read": "r", "write": "w"}
				}
				if rapid.IntRange(0, 6).Draw(t, "nullFlow") == 0 {
					flows[f] = nil
				} else {
					flows[f] = fl
				}
			}
			switch rapid.IntRange(0, 8).Draw(t, "flowsKind") {
			case 0:
				s["flows"] = nil
			default:
				s["flows"] = flows
			}
		}
		return s
	})
}

func c14CfgGen(t *rapid.T) c14CfgModel {
	schemes := []any{}
	for _, s := range rapid.SliceOfN(c14SchemeGen(), 0, 3).Draw(t, "schemes") {
		schemes = append(schemes, s)
	}
	cfg := map[string]any{
		"commonConfig": map[string]any{"controllerGlobs": []any{"./*.go"}},
		"routesConfig": map[string]any{"engine": rapid.SampledFrom([]string{"gin", "echo", "mux", "chi", "fiber"}).Draw(t, "engine"), "outputPath": "./dist/gleece.go",
			"outputFilePerms": "0644", "authorizationConfig": map[string]any{"authFileFullPackageName": "example.com/auth", "enforceSecurityOnAllRoutes": rapid.Bool().Draw(t, "enforce")}},
		"openAPIGeneratorConfig": map[string]any{
			"openapi": rapid.SampledFrom([]string{"3.0.0", "3.1.0", "3.1.0"}).Draw(t, "openapi"),
			"info": map[string]any{"title": "t", "version": "1", "description": "d", "termsOfService": "https://example.com/tos",
				"contact": map[string]any{"name": "n", "url": "https://example.com", "email": "a@example.com"}, "license": map[string]any{"name": "MIT", "url": "https://example.com/l"}},
			"baseUrl": "https://example.com", "securitySchemes": schemes,
			"specGeneratorConfig": map[string]any{"outputPath": "./dist/openapi.json"},
		},
	}
	if len(schemes) > 0 && rapid.Bool().Draw(t, "defaultSecurity") {
		name, _ := schemes[0].(map[string]any)["name"].(string)
		cfg["openAPIGeneratorConfig"].(map[string]any)["defaultSecurity"] = map[string]any{"name": name, "scopes": []any{"read"}}
	}
	// 0-2 edits anywhere in the tree: delete a key or replace a value by junk
	var paths [][]string
	var walk func(prefix []string, v any)
	walk = func(prefix []string, v any) {
		if mm, ok := v.(map[string]any); ok {
			for _, k := range sortedKeysAny(mm) {
				p := append(append([]string{}, prefix...), k)
				paths = append(paths, p)
				walk(p, mm[k])
			}
		}
	}
	walk(nil, cfg)
	for k := rapid.SampledFrom([]int{0, 0, 1, 1, 2}).Draw(t, "nEdits"); k > 0; k-- {
		p := rapid.SampledFrom(paths).Draw(t, "editPath")
		cur := cfg
		ok := true
		for _, seg := range p[:len(p)-1] {
			next, isMap := cur[seg].(map[string]any)
			if !isMap {
				ok = false
				break
			}
			cur = next
		}
		if !ok {
			continue
		}
		if rapid.IntRange(0, 3).Draw(t, "delete") == 0 {
			delete(cur, p[len(p)-1])
		} else {
			cur[p[len(p)-1]] = rapid.SampledFrom(c14JunkValues).Draw(t, "junk")
		}
	}
	b, _ := json.MarshalIndent(cfg, "", " ")
	return c14CfgModel{Text: string(b)}
}

func sortedKeysAny(m map[string]any) []string {
	ks := make([]string, 0, len(m))
	for k := range m {
		ks = append(ks, k)
	}
	for i := 1; i < len(ks); i++ {
		for j := i; j > 0 && ks[j] < ks[j-1]; j-- {
			ks[j], ks[j-1] = ks[j-1], ks[j]
		}
	}
	return ks
}

func c14CfgClassify(m c14CfgModel) harness.Class {
	c := harness.Class{NonTrivial: strings.Contains(m.Text, "\"flows\"") || strings.Contains(m.Text, "\"type\"")}
	if strings.Contains(m.Text, "\"flows\"") {
		c.Labels = append(c.Labels, "class:has-oauth-flows")
	}
	return c
}

func TestC14Config(t *testing.T) {
	harness.Run(t, harness.Prop[c14CfgModel]{
		ID:       "C14",
		Gen:      c14CfgGen,
		Check:    c14CfgCheck,
		Classify: c14CfgClassify,
		Rule: "configuration files: a complete valid configuration with 0-3 security schemes (every type incl. unknown ones; apiKey locations; http schemes; oauth2 with any subset of the four flows " +
			"plus an unknown one, flows with/without URLs, scopes absent/null/empty/filled, null flow objects, null flows) and an optional default security, then 0-2 edits anywhere in the tree " +
			"(key deleted, value replaced by one of ~35 junk values of every JSON type). The REAL cmd.LoadGleeceConfig reads the file; when it is accepted the REAL swagen.GenerateSpec emits a fixed " +
			"one-route API whose route uses every configured scheme. Oracle: load returns an error with a message or a configuration; emission returns an error or JSON; no panic. " +
			"Non-trivial = the file configures at least one scheme; distinct = hash of the file.",
		Assume: []string{"the fixed API is fabricated intermediate metadata (as in the unit part); the project-level part runs the whole command on generated projects"},
		Floors: map[string]float64{"config-accepted-with-schemes": 0.1, "config-accepted-with-oauth-flows": 0.03},
	})
}

// FuzzC14Config feeds raw bytes as the configuration file (thorough tier only).
func FuzzC14Config(f *testing.F) {
	for i := 1; i <= 12; i++ {
		f.Add(rapid.Custom(c14CfgGen).Example(i).Text)
	}
	f.Add("{}")
	f.Add("{ // json5\n openAPIGeneratorConfig: { openapi: '3.1.0', securitySchemes: [ { type: 'oauth2', name: 'o', description: 'd', flows: { clientCredentials: { tokenUrl: 'https://e.com/t', scopes: {} } } } ] } }")
	kf, _ := known.Load()
	f.Fuzz(func(t *testing.T, text string) {
		if len(text) > 4000 {
			return
		}
		m := c14CfgModel{Text: text}
		for _, v := range c14CfgCheck(m, nil) {
			if kf != nil {
				if _, ok := kf.Match("C14", v.Signature); ok {
					continue
				}
			}
			mb, _ := json.MarshalIndent(m, "", " ")
			rf := map[string]any{"property": "C14", "part": "config", "signature": v.Signature, "message": v.Message, "model": json.RawMessage(mb)}
			b, _ := json.MarshalIndent(rf, "", " ")
			dir := filepath.Join(known.Root(), "replays", "C14")
			_ = os.MkdirAll(dir, 0o755)
			path := filepath.Join(dir, fmt.Sprintf("viol-fuzz-%016x.json", ev.Hash(v.Signature+"\x00"+text)))
			_ = os.WriteFile(path, b, 0o644)
			t.Fatalf("VERIF-FUZZ-VIOLATION signature=%s replay=%s\n%s", v.Signature, path, v.Message)
		}
	})
}
