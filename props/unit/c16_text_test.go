package unit

import (
	"encoding/json"
	"fmt"
	"go/ast"
	"go/parser"
	"go/token"
	"os"
	"path/filepath"
	"reflect"
	"strings"
	"testing"
	"unicode/utf8"

	"github.com/gopher-fleece/gleece/v2/core/annotations"
	"github.com/gopher-fleece/gleece/v2/gast"
	"github.com/titanous/json5"
	"pgregory.net/rapid"

	"verif/internal/ev"
	"verif/internal/harness"
	"verif/internal/known"
)

// C16, second part: arbitrary comment text.
//
// TestC16 writes blocks from a grammar and demands the exact round trip. This part goes the other way:
// the text is arbitrary (token soup from rapid, bytes from the native fuzzer) and the oracle is the set of
// relations between the text and whatever the parser made of it that the statement implies for *every*
// input, without a reference grammar that could disagree with gleece about corner cases:
//
//	I1 the parser returns (no panic);
//	I2 every comment line is either one attribute or one free-text line;
//	I3 an attribute comes from a line that starts with "@<its name>", and attributes are in source order;
//	I5 a non-empty value is the text its value range covers;
//	I6 non-empty properties are what the text covered by the properties range decodes to as ONE JSON5
//	   value (nothing silently dropped, nothing invented);
//	I7 a non-empty description is the tail of its line.

type c16TextModel struct {
	Text string `json:"text"` // lines separated by \n; each becomes one "// <line>" comment
}

func c16TextLines(text string) []string {
	text = strings.ReplaceAll(text, "\r", " ")
	lines := strings.Split(text, "\n")
	if len(lines) > 12 {
		lines = lines[:12]
	}
	return lines
}

// c16TextBlock turns the text into a doc comment through go/parser, as gleece sees it. ok=false: the text
// cannot be a Go comment (NUL, invalid UTF-8, ...), which is outside the property's domain.
func c16TextBlock(text string) (gast.CommentBlock, []string, bool) {
	if !utf8.ValidString(text) || strings.ContainsRune(text, 0) || strings.ContainsRune(text, '\uFEFF') {
		return gast.CommentBlock{}, nil, false
	}
	lines := c16TextLines(text)
	var sb strings.Builder
	sb.WriteString("package p\n\n")
	for _, l := range lines {
		sb.WriteString("// " + l + "\n")
	}
	sb.WriteString("type T struct{}\n")
	src := sb.String()
	fset := token.NewFileSet()
	f, err := parser.ParseFile(fset, "/proj/c16text.go", src, parser.ParseComments)
	if err != nil {
		return gast.CommentBlock{}, nil, false
	}
	var doc *ast.CommentGroup
	ast.Inspect(f, func(n ast.Node) bool {
		if d, ok := n.(*ast.GenDecl); ok && d.Doc != nil {
			doc = d.Doc
		}
		return true
	})
	if doc == nil || len(doc.List) != len(lines) {
		return gast.CommentBlock{}, nil, false
	}
	return gast.MapDocListToCommentBlock(doc.List, fset), strings.Split(src, "\n"), true
}

func c16TextCheck(m c16TextModel, rec *ev.Recorder) []harness.Viol {
	block, srcLines, ok := c16TextBlock(m.Text)
	if !ok {
		if rec != nil {
			rec.Label("not-a-go-comment", 1)
		}
		return nil
	}
	var viols []harness.Viol
	add := func(sig, format string, a ...any) {
		viols = append(viols, harness.Viol{Signature: "C16:text:" + sig, Message: fmt.Sprintf(format, a...) + "\ntext:\n" + m.Text})
	}
	holder, err := annotations.NewAnnotationHolder(block, annotations.CommentSourceController)
	if err != nil {
		if rec != nil {
			rec.Label("rejected", 1)
		}
		return nil
	}
	attrs, free := holder.Attributes(), holder.NonAttributeComments()
	if rec != nil {
		rec.Label("accepted", 1)
		if len(attrs) > 0 {
			rec.Label("accepted-with-attributes", 1)
		}
	}
	if len(attrs)+len(free) != len(block.Comments) {
		add("line-accounting", "%d comment lines became %d attributes and %d free-text lines", len(block.Comments), len(attrs), len(free))
	}
	last := -1
	for i, a := range attrs {
		idx := a.Comment.Index
		if idx <= last {
			add("source-order", "attribute %d (@%s) has comment index %d after index %d", i, a.Name, idx, last)
		}
		last = idx
		if idx < 0 || idx >= len(block.Comments) {
			add("comment-index", "attribute %d (@%s) has comment index %d of %d", i, a.Name, idx, len(block.Comments))
			continue
		}
		line := strings.TrimLeft(strings.TrimPrefix(block.Comments[idx].Text, "//"), " \t")
		if !strings.HasPrefix(line, "@"+a.Name) || a.Name == "" {
			add("attribute-from-free-text", "attribute %d is named %q but its line reads %q", i, a.Name, line)
			continue
		}
		if a.Value != "" {
			vr := a.GetValueRange()
			if txt, ok := c16Slice(srcLines, vr.StartLine, vr.StartCol, vr.EndLine, vr.EndCol); !ok || txt != a.Value {
				add("value-range", "attribute %d (@%s): value %q, value range %v covers %q", i, a.Name, a.Value, vr, txt)
			}
		}
		if len(a.Properties) > 0 {
			pr := a.PropertiesRange
			txt, ok := c16Slice(srcLines, pr.StartLine, pr.StartCol, pr.EndLine, pr.EndCol)
			if !ok {
				add("properties-range", "attribute %d (@%s): properties range %v is not inside its line", i, a.Name, pr)
			} else {
				var again map[string]any
				if err := json5.Unmarshal([]byte(txt), &again); err != nil {
					add("properties-not-the-covered-text", "attribute %d (@%s): properties %v, but the covered text %q is not one JSON5 object: %v", i, a.Name, a.Properties, txt, err)
				} else if !reflect.DeepEqual(again, map[string]any(a.Properties)) {
					add("properties-not-the-covered-text", "attribute %d (@%s): properties %v, the covered text %q decodes to %v", i, a.Name, a.Properties, txt, again)
				}
			}
		}
		if a.Description != "" && !strings.HasSuffix(strings.TrimSpace(line), strings.TrimSpace(a.Description)) {
			add("description-not-line-tail", "attribute %d (@%s): description %q is not the tail of %q", i, a.Name, a.Description, line)
		}
	}
	for i, f := range free {
		if f.Index < 0 || f.Index >= len(block.Comments) {
			add("comment-index", "free text %d has comment index %d of %d", i, f.Index, len(block.Comments))
		}
	}
	return viols
}

var c16Tokens = []string{"@", "@", "Query", "Route", "Security", "Description", "Path", "x", "(", "(", ")", ")", "{", "{", "}", "}", "})", "({", "[", "]", ",", ",", ":", ":",
	"\"", "\"", "'", "`", " ", " ", " ", "name", "scopes", "a", "b1", "1", "-0.5", "true", "null", "//", "/*", "*/", "\\", "\\\"", "\t", "é", "日本", "😀", "/users/{id}", "+Inf", "0x1F", "\n", "\n"}

var c16PropTokens = []string{"name", "scopes", "a", "\"a\"", "'b'", ":", ":", ",", ",", " ", "1", "-0.5", "true", "null", "[", "]", "{", "}", "\"})\"", "\"{\"", "')'", "+Inf", "0x1F", "\"é日\"", "/*c*/"}

// c16Json5 writes a small well-formed JSON5 object (bare, single- and double-quoted keys, nested arrays and
// objects, strings holding the characters the annotation syntax itself uses).
func c16Json5(t *rapid.T, depth int) string {
	var val func(d int) string
	val = func(d int) string {
		k := rapid.IntRange(0, 9).Draw(t, "valKind")
		switch {
		case k == 0 && d < 2:
			n := rapid.IntRange(0, 3).Draw(t, "arrLen")
			var vs []string
			for i := 0; i < n; i++ {
				vs = append(vs, val(d+1))
			}
			return "[" + strings.Join(vs, rapid.SampledFrom([]string{",", ", "}).Draw(t, "arrSep")) + "]"
		case k == 1 && d < 2:
			return c16Json5(t, d+1)
		default:
			return rapid.SampledFrom([]string{"1", "-0.5", "true", "false", "null", "\"a\"", "'b'", "\"})\"", "\"{\"", "')'", "\"é日\"", "\"x, y\"", "0x1F", "\"\\\"q\\\"\"", "\"\""}).Draw(t, "lit")
		}
	}
	n := rapid.IntRange(0, 3).Draw(t, "nPairs")
	var pairs []string
	for i := 0; i < n; i++ {
		key := rapid.SampledFrom([]string{"name", "scopes", "validate", "a", "\"q r\"", "'s'", "$k", "_"}).Draw(t, "key") + fmt.Sprint(i)
		if strings.HasPrefix(key, "\"") || strings.HasPrefix(key, "'") {
			key = key[:len(key)-1] // keep the quote balanced: drop the index again
		}
		pairs = append(pairs, key+rapid.SampledFrom([]string{":", ": ", " : "}).Draw(t, "colon")+val(depth))
	}
	body := strings.Join(pairs, rapid.SampledFrom([]string{",", ", "}).Draw(t, "pairSep"))
	if n > 0 && rapid.IntRange(0, 4).Draw(t, "trailingComma") == 0 {
		body += ","
	}
	return rapid.SampledFrom([]string{"{", "{ "}).Draw(t, "open") + body + rapid.SampledFrom([]string{"}", " }"}).Draw(t, "close")
}

// c16TextGen writes lines that mostly follow the annotation skeleton (so that the parser's interesting paths are
// reached) and then damages some of them: a token inserted, a rune deleted, a piece duplicated.
func c16TextGen(t *rapid.T) c16TextModel {
	soup := func(label string, pool []string, min, max int) string {
		return strings.Join(rapid.SliceOfN(rapid.SampledFrom(pool), min, max).Draw(t, label), "")
	}
	n := rapid.IntRange(1, 4).Draw(t, "nLines")
	var lines []string
	for i := 0; i < n; i++ {
		var l string
		switch rapid.IntRange(0, 4).Draw(t, "lineKind") {
		case 0:
			l = soup("soup", c16Tokens, 1, 25)
		default:
			l = "@" + rapid.SampledFrom([]string{"Route", "Query", "Security", "Description", "Method", "Tag", "Hidden", "x", "Über"}).Draw(t, "name")
			if rapid.IntRange(0, 4).Draw(t, "paren") > 0 {
				l += "(" + soup("value", []string{"a", "b1", "/users/{id}", "x", " ", "é", "1", "-", "_", "GET", "{", ")"}, 0, 3)
				if rapid.IntRange(0, 2).Draw(t, "props") > 0 {
					obj := "{" + soup("props", c16PropTokens, 0, 10) + "}"
					if rapid.IntRange(0, 3).Draw(t, "wellFormedProps") > 0 {
						obj = c16Json5(t, 0)
					}
					l += rapid.SampledFrom([]string{", ", ",", " , "}).Draw(t, "sep") + obj
				}
				l += ")"
			}
			if rapid.IntRange(0, 2).Draw(t, "desc") > 0 {
				l += " " + soup("desc", c16Tokens, 1, 8)
			}
		}
		for k := rapid.IntRange(0, 3).Draw(t, "nDamage") - 1; k > 0; k-- {
			rs := []rune(l)
			pos := rapid.IntRange(0, len(rs)).Draw(t, "pos")
			switch rapid.IntRange(0, 2).Draw(t, "damage") {
			case 0:
				l = string(rs[:pos]) + rapid.SampledFrom(c16Tokens).Draw(t, "ins") + string(rs[pos:])
			case 1:
				if pos < len(rs) {
					l = string(rs[:pos]) + string(rs[pos+1:])
				}
			case 2:
				end := rapid.IntRange(pos, len(rs)).Draw(t, "end")
				l = string(rs[:end]) + string(rs[pos:end]) + string(rs[end:])
			}
		}
		lines = append(lines, strings.ReplaceAll(l, "\n", " "))
	}
	return c16TextModel{Text: strings.Join(lines, "\n")}
}

func c16TextClassify(m c16TextModel) harness.Class {
	c := harness.Class{}
	block, _, ok := c16TextBlock(m.Text)
	if !ok {
		return c
	}
	holder, err := annotations.NewAnnotationHolder(block, annotations.CommentSourceController)
	if err != nil {
		c.Labels = append(c.Labels, "class:rejected")
		c.NonTrivial = strings.Contains(m.Text, "@")
		return c
	}
	for _, a := range holder.Attributes() {
		c.NonTrivial = true
		if len(a.Properties) > 0 {
			c.Labels = append(c.Labels, "class:attribute-with-properties")
		}
		if a.Value != "" {
			c.Labels = append(c.Labels, "class:attribute-with-value")
		}
		if a.Description != "" {
			c.Labels = append(c.Labels, "class:attribute-with-description")
		}
	}
	return c
}

const c16TextRule = "1-4 lines; four in five follow the skeleton '@Name(value, {props}) description' with value, props and description filled with token soup (annotation punctuation, quotes, " +
	"JSON5 literals, braces inside strings, comment markers, multibyte runes), one in five is soup throughout; then 0-2 damages per line (token inserted, rune deleted, piece duplicated); each line " +
	"becomes a '// ' doc comment through go/parser. Oracle: invariants I1-I7 relating the text to the parse result (see c16_text_test.go). The native fuzz target " +
	"(thorough tier) feeds raw bytes through the same oracle. Non-trivial = the text contains '@' and is either rejected or yields at least one attribute; distinct = hash of the text."

func TestC16Text(t *testing.T) {
	harness.Run(t, harness.Prop[c16TextModel]{
		ID:       "C16",
		Gen:      c16TextGen,
		Check:    c16TextCheck,
		Classify: c16TextClassify,
		Rule:     c16TextRule,
		Assume:   []string{"text that cannot be a Go comment (NUL, BOM, invalid UTF-8) is outside the domain and skipped (counted as not-a-go-comment)"},
		Floors:   map[string]float64{"accepted-with-attributes": 0.02},
	})
}

// FuzzC16Text is the coverage-guided variant (thorough tier only). A failing input is written as an ordinary
// replay file, so that `./check C16 --replay <file>` re-runs it through TestC16Text without the fuzzer.
func FuzzC16Text(f *testing.F) {
	for _, s := range []string{
		"@Route(/users/{id})", "@Query(a, { name: \"b\", validate: \"required\" }) the a", "@Security(oauth, { scopes: [\"read\", 'w'] })",
		"free text\n@Method(GET)\n@Description hello", "@Query(a, {x: {y: [1, {z: ')'}]}}) d })", "@Tag(Users) {", "@Hidden", "@ErrorResponse(404) not found",
	} {
		f.Add(s)
	}
	kf, _ := known.Load()
	f.Fuzz(func(t *testing.T, text string) {
		if len(text) > 600 {
			return
		}
		m := c16TextModel{Text: text}
		for _, v := range c16TextCheck(m, nil) {
			if kf != nil {
				if _, ok := kf.Match("C16", v.Signature); ok {
					continue
				}
			}
			mb, _ := json.MarshalIndent(m, "", " ")
			rf := map[string]any{"property": "C16", "part": "text", "signature": v.Signature, "message": v.Message, "model": json.RawMessage(mb)}
			b, _ := json.MarshalIndent(rf, "", " ")
			dir := filepath.Join(known.Root(), "replays", "C16")
			_ = os.MkdirAll(dir, 0o755)
			path := filepath.Join(dir, fmt.Sprintf("viol-fuzz-%016x.json", ev.Hash(v.Signature+"\x00"+text)))
			_ = os.WriteFile(path, b, 0o644)
			t.Fatalf("VERIF-FUZZ-VIOLATION signature=%s replay=%s\n%s", v.Signature, path, v.Message)
		}
	})
}
