package unit

import (
	"fmt"
	"sort"
	"strings"
	"testing"

	"github.com/gopher-fleece/gleece/v2/core/metadata"
	"github.com/gopher-fleece/gleece/v2/core/validators/paths"
	"pgregory.net/rapid"

	"verif/internal/ev"
	"verif/internal/harness"
)

// C15 — route-conflict detection flags exactly the overlapping same-verb routes.

type c15Entry struct {
	Verb  string   `json:"verb"`
	Segs  []string `json:"segs"`  // the template's segments, by construction
	Noise int      `json:"noise"` // how the segments are rendered into text
}

type c15Model struct {
	Entries []c15Entry `json:"entries"`
	Perm    []int      `json:"perm"` // a permutation of indices
}

var c15Alphabet = []string{"a", "b", "c", "{x}", "{y}", "{id}", "users", "a-b"}

// render writes the segments with slash noise. Noise bits: 1 = no leading slash,
// 2 = doubled separators, 4 = trailing slash, 8 = doubled leading slash, 16 = runs of three slashes (what joining a
// prefix that ends in "/" with "/" and a route that starts with "/" gives), 32 = a run of four in front.
func (e c15Entry) render() string {
	sep := "/"
	if e.Noise&2 != 0 {
		sep = "//"
	}
	if e.Noise&16 != 0 {
		sep = "///"
	}
	s := strings.Join(e.Segs, sep)
	switch {
	case e.Noise&32 != 0:
		s = "////" + s
	case e.Noise&8 != 0:
		s = "//" + s
	case e.Noise&1 == 0:
		s = "/" + s
	}
	if e.Noise&4 != 0 {
		s += "/"
	}
	if len(e.Segs) == 0 {
		// "", "/", "//" all denote the root
		switch e.Noise & 3 {
		case 1:
			s = ""
		case 2:
			s = "//"
		default:
			s = "/"
		}
	}
	return s
}

func (e c15Entry) trailing() bool { return len(e.Segs) > 0 && e.Noise&4 != 0 }

func c15IsParam(s string) bool { return strings.HasPrefix(s, "{") && strings.HasSuffix(s, "}") }

// overlap is the brute-force reference taken from the property statement: same verb, equal
// segment counts and, position by position, equal literals or at least one parameter.
func c15Overlap(a, b c15Entry) bool {
	if a.Verb != b.Verb || len(a.Segs) != len(b.Segs) {
		return false
	}
	for i := range a.Segs {
		if a.Segs[i] == b.Segs[i] || c15IsParam(a.Segs[i]) || c15IsParam(b.Segs[i]) {
			continue
		}
		return false
	}
	return true
}

// ambiguous: whether "/a/" and "/a" are the same normalised template is not fixed by the
// statement (the spec emitter keeps the trailing slash, the detector strips it), so pairs
// that differ in trailing-slash-ness are neither required nor forbidden to be reported.
func c15Ambiguous(a, b c15Entry) bool { return a.trailing() != b.trailing() }

func c15Gen(t *rapid.T) c15Model {
	n := rapid.IntRange(0, 8).Draw(t, "n")
	m := c15Model{}
	for i := 0; i < n; i++ {
		var e c15Entry
		// duplicates and near-duplicates are likely by construction
		if i > 0 && rapid.IntRange(0, 9).Draw(t, "dupe") < 3 {
			src := m.Entries[rapid.IntRange(0, i-1).Draw(t, "src")]
			e = c15Entry{Verb: src.Verb, Segs: append([]string(nil), src.Segs...)}
			if len(e.Segs) > 0 && rapid.Bool().Draw(t, "mutate") {
				k := rapid.IntRange(0, len(e.Segs)-1).Draw(t, "k")
				e.Segs[k] = rapid.SampledFrom(c15Alphabet).Draw(t, "seg")
			}
			if rapid.IntRange(0, 3).Draw(t, "reverb") == 0 {
				e.Verb = rapid.SampledFrom([]string{"GET", "POST", "PUT"}).Draw(t, "verb")
			}
		} else {
			e.Verb = rapid.SampledFrom([]string{"GET", "POST", "PUT"}).Draw(t, "verb")
			e.Segs = rapid.SliceOfN(rapid.SampledFrom(c15Alphabet), 0, 4).Draw(t, "segs")
		}
		if rapid.IntRange(0, 3).Draw(t, "noisy") == 0 {
			e.Noise = rapid.IntRange(0, 63).Draw(t, "noise")
		}
		m.Entries = append(m.Entries, e)
	}
	m.Perm = rapid.Permutation(seq(n)).Draw(t, "perm")
	return m
}

func seq(n int) []int {
	s := make([]int, n)
	for i := range s {
		s[i] = i
	}
	return s
}

// c15Run hands the entries (in the given order) to the real detector and maps every
// reported conflict back to entry indices through the unique Meta.Receiver pointers.
func c15Run(entries []c15Entry, order []int) (pairs [][2]int, flagged map[int]bool, viols []harness.Viol) {
	recv := make([]*metadata.ReceiverMeta, len(entries))
	idx := map[*metadata.ReceiverMeta]int{}
	for i := range entries {
		recv[i] = &metadata.ReceiverMeta{}
		idx[recv[i]] = i
	}
	list := make([]paths.RouteEntry, 0, len(entries))
	for _, i := range order {
		list = append(list, paths.RouteEntry{
			Path:   entries[i].render(),
			Method: entries[i].Verb,
			Meta:   paths.RouteEntryMeta{Receiver: recv[i]},
		})
	}
	flagged = map[int]bool{}
	for _, c := range paths.FindConflicts(list) {
		a, okA := idx[c.A.Meta.Receiver]
		b, okB := idx[c.B.Meta.Receiver]
		if !okA || !okB {
			viols = append(viols, harness.Viol{Signature: "C15:conflict-names-non-entry",
				Message: fmt.Sprintf("conflict %q/%q names something that is not an entry of the list", c.A.Path, c.B.Path)})
			continue
		}
		pairs = append(pairs, [2]int{a, b})
		flagged[a], flagged[b] = true, true
	}
	return
}

func c15Check(m c15Model, rec *ev.Recorder) []harness.Viol {
	n := len(m.Entries)
	pairs, flagged, viols := c15Run(m.Entries, seq(n))

	// Soundness.
	for _, p := range pairs {
		a, b := m.Entries[p[0]], m.Entries[p[1]]
		switch {
		case p[0] == p[1]:
			viols = append(viols, harness.Viol{Signature: "C15:unsound:self-conflict",
				Message: fmt.Sprintf("entry %d (%s %q) reported as conflicting with itself", p[0], a.Verb, a.render())})
		case a.Verb != b.Verb:
			viols = append(viols, harness.Viol{Signature: "C15:unsound:different-verbs",
				Message: fmt.Sprintf("%s %q vs %s %q", a.Verb, a.render(), b.Verb, b.render())})
		case !c15Overlap(a, b):
			viols = append(viols, harness.Viol{Signature: "C15:unsound:no-common-path",
				Message: fmt.Sprintf("%s %q vs %s %q cannot match a common concrete path", a.Verb, a.render(), b.Verb, b.render())})
		}
	}

	// Completeness per entry.
	for i := 0; i < n; i++ {
		if flagged[i] {
			continue
		}
		for j := 0; j < n; j++ {
			if i == j || c15Ambiguous(m.Entries[i], m.Entries[j]) || !c15Overlap(m.Entries[i], m.Entries[j]) {
				continue
			}
			kind := "overlap"
			if strings.Join(m.Entries[i].Segs, "/") == strings.Join(m.Entries[j].Segs, "/") {
				kind = "duplicate"
			}
			viols = append(viols, harness.Viol{Signature: "C15:incomplete:unnamed-entry:" + kind,
				Message: fmt.Sprintf("entry %d (%s %q) overlaps entry %d (%s %q) but is named in no conflict; list=%s",
					i, m.Entries[i].Verb, m.Entries[i].render(), j, m.Entries[j].Verb, m.Entries[j].render(), c15Show(m.Entries))})
			break
		}
	}

	// Order independence of the flagged set.
	if len(m.Perm) == n {
		_, flaggedP, _ := c15Run(m.Entries, m.Perm)
		if d := c15SetDiff(flagged, flaggedP); d != "" {
			viols = append(viols, harness.Viol{Signature: "C15:order-dependent",
				Message: fmt.Sprintf("flagged set changes under permutation %v: %s; list=%s", m.Perm, d, c15Show(m.Entries))})
		}
	}
	return viols
}

func c15SetDiff(a, b map[int]bool) string {
	var out []string
	for k := range a {
		if !b[k] {
			out = append(out, fmt.Sprintf("-%d", k))
		}
	}
	for k := range b {
		if !a[k] {
			out = append(out, fmt.Sprintf("+%d", k))
		}
	}
	sort.Strings(out)
	return strings.Join(out, ",")
}

func c15Show(es []c15Entry) string {
	var out []string
	for _, e := range es {
		out = append(out, e.Verb+" "+fmt.Sprintf("%q", e.render()))
	}
	return "[" + strings.Join(out, ", ") + "]"
}

func c15Classify(m c15Model) harness.Class {
	n := len(m.Entries)
	c := harness.Class{}
	nonTextual, triple := false, false
	verbsWithOverlap := map[string]bool{}
	for i := 0; i < n; i++ {
		deg := 0
		for j := 0; j < n; j++ {
			if i == j || !c15Overlap(m.Entries[i], m.Entries[j]) {
				continue
			}
			deg++
			verbsWithOverlap[m.Entries[i].Verb] = true
			if m.Entries[i].render() != m.Entries[j].render() {
				nonTextual = true
			}
		}
		if deg >= 2 {
			triple = true
		}
	}
	if nonTextual {
		c.Labels = append(c.Labels, "overlap-not-textually-identical")
	}
	if triple {
		c.Labels = append(c.Labels, "three-mutually-overlapping")
	}
	if len(verbsWithOverlap) >= 2 {
		c.Labels = append(c.Labels, "overlaps-on-two-verbs")
	}
	if len(verbsWithOverlap) == 0 {
		c.Labels = append(c.Labels, "no-overlap")
	}
	for _, e := range m.Entries {
		if e.Noise != 0 {
			c.Labels = append(c.Labels, "slash-noise")
			break
		}
	}
	c.NonTrivial = nonTextual || triple || len(verbsWithOverlap) >= 2
	return c
}

func TestC15(t *testing.T) {
	harness.Run(t, harness.Prop[c15Model]{
		ID:       "C15",
		Gen:      c15Gen,
		Check:    c15Check,
		Classify: c15Classify,
		Sample:   func(m c15Model) any { return map[string]any{"list": c15Show(m.Entries), "perm": m.Perm} },
		Rule: "rapid draws lists of 0-8 route entries (verb in GET/POST/PUT, 0-4 segments over literals and {params}, " +
			"rendered with slash noise, duplicates and one-segment mutations of earlier entries likely by construction) plus a permutation; " +
			"oracle = brute-force O(n^2) overlap predicate from the statement (soundness of every reported pair, completeness per entry, " +
			"flagged set equal under the permutation). Non-trivial = list has an overlapping pair that is not textually identical, " +
			"or an entry overlapping >=2 others, or overlaps on two verbs; distinct = different canonical JSON of the model.",
		Assume: []string{
			"entries are identified through unique Meta.Receiver pointers carried through FindConflicts",
			"pairs that differ only in having a trailing slash are neither required nor forbidden (statement leaves that normalisation open)",
		},
		Floors: map[string]float64{"nontrivial": 0.3, "three-mutually-overlapping": 0.1, "overlaps-on-two-verbs": 0.03},
	})
}
