package unit

import (
	"encoding/json"
	"fmt"
	"io"
	"log"
	"strings"
	"testing"

	"github.com/gopher-fleece/gleece/v2/core/annotations"
	"github.com/gopher-fleece/gleece/v2/core/metadata"
	"github.com/gopher-fleece/gleece/v2/gast"
	"github.com/gopher-fleece/gleece/v2/generator/swagen"
	"github.com/gopher-fleece/gleece/v2/infrastructure/logger"
	"pgregory.net/rapid"

	"verif/internal/ev"
	"verif/internal/harness"
)

// C14 (unit level) — arbitrary validator strings, type names and annotation property bags
// never crash the emitters or the annotation helpers: the call returns bytes or an error.

func init() {
	log.SetOutput(io.Discard)
	logger.SetLogLevel(logger.LogLevelNone)
}

type c14Sec struct {
	Line string `json:"line"` // a full "// @Security(...)" comment line
}

type c14Model struct {
	Em       emModel  `json:"em"`
	Security []string `json:"security"` // comment lines handed to the annotation holder + GetSecurityFromContext
}

func c14SecLineGen() *rapid.Generator[string] {
	return rapid.Custom(func(t *rapid.T) string {
		val := rapid.SampledFrom([]string{"null", "[]", `["read"]`, `["read", "write"]`, "1", `"read"`, "[1, 2]", "[null]", `[["a"]]`, "{}", `[{a: 1}]`, "true", `["a", 1]`, "[[]]"}).Draw(t, "scopes")
		key := rapid.SampledFrom([]string{"scopes", "scopes", "scopes", "Scopes", "name", "x"}).Draw(t, "key")
		name := rapid.SampledFrom([]string{"Security", "Security", "Query", "TemplateContext", "ErrorResponse", "Response"}).Draw(t, "ann")
		value := rapid.SampledFrom([]string{"schema1", "a", "200", "abc", "-1", "99999999999999999999"}).Draw(t, "value")
		return fmt.Sprintf("// @%s(%s, {%s: %s})", name, value, key, val)
	})
}

func c14Gen(t *rapid.T) c14Model {
	return c14Model{Em: emGen(t), Security: rapid.SliceOfN(c14SecLineGen(), 0, 3).Draw(t, "sec")}
}

func c14Check(m c14Model, rec *ev.Recorder) []harness.Viol {
	var viols []harness.Viol
	// (1) both emitters on the generated intermediate metadata
	for _, version := range []string{"3.0.0", "3.1.0"} {
		ctrls, models := m.Em.metadata()
		out, err := swagen.GenerateSpec(emConfig(version), ctrls, models, m.Em.hasPlainError())
		switch {
		case err != nil:
			rec.Label("emitter-error:"+version, 1)
		case !json.Valid(out):
			viols = append(viols, harness.Viol{Signature: "C14:emitter-invalid-json:" + version, Message: "GenerateSpec returned bytes that are not JSON"})
		default:
			rec.Label("emitter-ok:"+version, 1)
		}
	}
	// (2) annotation property bags through the security / template-context / response helpers
	if len(m.Security) > 0 {
		block := gast.CommentBlock{FileName: "x.go"}
		for i, l := range m.Security {
			block.Comments = append(block.Comments, gast.CommentNode{Text: l, Index: i})
		}
		holder, err := annotations.NewAnnotationHolder(block, annotations.CommentSourceRoute)
		if err == nil {
			_, _ = metadata.GetSecurityFromContext(&holder)
			_, _ = metadata.GetTemplateContextMetadata(&holder)
			for _, a := range holder.Attributes() {
				a := a
				_, _ = annotations.GetCastProperty[[]string](&a, "scopes")
				_, _ = annotations.GetCastProperty[string](&a, "name")
				_, _ = annotations.GetCastProperty[[]int](&a, "scopes")
			}
		}
	}
	return viols
}

func c14Classify(m c14Model) harness.Class {
	c := harness.Class{}
	odd := false
	check := func(v string) {
		for _, r := range strings.Split(v, ",") {
			if i := strings.Index(r, "="); i >= 0 {
				arg := r[i+1:]
				if arg == "" || strings.ContainsAny(arg, "abcxüNI| =") {
					odd = true
				}
			}
		}
	}
	for _, s := range m.Em.Structs {
		for _, f := range s.Fields {
			check(f.Validate)
		}
	}
	for _, r := range m.Em.Routes {
		for _, p := range r.Params {
			check(p.Validator)
		}
	}
	if odd {
		c.Labels = append(c.Labels, "rule-with-unparsable-or-odd-argument")
	}
	nullish := false
	for _, l := range m.Security {
		if strings.Contains(l, "null") || strings.Contains(l, "[[") || strings.Contains(l, "{}") || strings.Contains(l, ": 1") {
			nullish = true
		}
	}
	if nullish {
		c.Labels = append(c.Labels, "property-bag-with-null-or-wrong-shape")
	}
	c.NonTrivial = odd || nullish
	return c
}

func TestC14Unit(t *testing.T) {
	harness.Run(t, harness.Prop[c14Model]{
		ID:       "C14",
		Gen:      c14Gen,
		Check:    c14Check,
		Classify: c14Classify,
		Rule: "unit level: rapid draws intermediate metadata (0-3 structs in drawn declaration order with fields over ~30 type names incl. forward/backward " +
			"struct references, enums, aliases, unknown and malformed type names; 0-3 routes with parameters in every location) whose validator strings are arbitrary " +
			"rule lists (every converter rule name x parsable/unparsable/empty/unicode arguments, or a raw random string), and runs the REAL swagen.GenerateSpec for " +
			"3.0.0 and 3.1.0; plus @Security/@TemplateContext/@Response lines whose JSON5 property bags hold null, numbers, nested arrays and objects, run through " +
			"NewAnnotationHolder, GetSecurityFromContext, GetTemplateContextMetadata and GetCastProperty. Oracle: the call returns (valid JSON, nil) or an error - never a panic. " +
			"Non-trivial = a rule with an unparsable/odd argument or a property bag with null/wrong shape; distinct = canonical JSON of the model.",
		Assume: []string{"the emitters are entered through swagen.GenerateSpec exactly as the CLI does after analysis; intermediate metadata is fabricated, not derived from Go source (the project-level half of C14 covers that path)"},
		Floors: map[string]float64{"nontrivial": 0.5},
	})
}
