package unit

import (
	"fmt"
	"go/ast"
	"go/token"
	"sort"
	"strings"
	"testing"
	"time"

	"github.com/gopher-fleece/gleece/v2/common"
	"github.com/gopher-fleece/gleece/v2/core/metadata"
	"github.com/gopher-fleece/gleece/v2/core/metadata/typeref"
	"github.com/gopher-fleece/gleece/v2/gast"
	"github.com/gopher-fleece/gleece/v2/graphs"
	"github.com/gopher-fleece/gleece/v2/graphs/symboldg"
	"pgregory.net/rapid"

	"verif/internal/ev"
	"verif/internal/harness"
)

// C17 — the symbol graph's views stay mutually consistent under any edit sequence.
//
// The whole history is drawn up front (so it shrinks as one value and replays from JSON);
// the model is a plain set of nodes (base id -> version) and a set of edges
// (from, to, kind); every public query is compared with the model after every step.

// ---- universe ---------------------------------------------------------------------

type c17Elem struct {
	Name string
	File int    // 0,1 for declared elements; -1 for builtins
	Kind string // struct|field|enum|value|alias|const|prim|special
	Pos  token.Pos
}

var c17Universe = []c17Elem{
	{"S0", 0, "struct", 10}, {"S1", 1, "struct", 10},
	{"f0", 0, "field", 20}, {"f1", 0, "field", 30}, {"f2", 1, "field", 20},
	{"E0", 0, "enum", 40}, {"v0", 0, "value", 50}, {"v1", 0, "value", 60},
	{"A0", 1, "alias", 40}, {"K0", 1, "const", 50},
	{"string", -1, "prim", 0}, {"int", -1, "prim", 0}, {"bool", -1, "prim", 0},
	{"error", -1, "special", 0}, {"time.Time", -1, "special", 0},
}

var c17EdgeKinds = []symboldg.SymbolEdgeKind{symboldg.EdgeKindType, symboldg.EdgeKindReference, symboldg.EdgeKindField, symboldg.EdgeKindValue}

func c17ElemIdx(name string) int {
	for i, e := range c17Universe {
		if e.Name == name {
			return i
		}
	}
	return -1
}

// ---- history ----------------------------------------------------------------------

type c17Op struct {
	Op   string `json:"op"`             // addPrim addSpecial addStruct addField addEnum addAlias addConst addEdge rmEdge rmNode bump
	A    int    `json:"a"`              // element index (or file index for bump)
	B    int    `json:"b,omitempty"`    // second element (edge target / field type)
	Kind int    `json:"kind,omitempty"` // edge kind index; -1 = nil (all kinds) for rmEdge
	Sub  []int  `json:"sub,omitempty"`  // fields of a struct / values of an enum
}

type c17Model struct {
	Ops []c17Op `json:"ops"`
}

func (o c17Op) String() string {
	n := func(i int) string { return c17Universe[i].Name }
	switch o.Op {
	case "bump":
		return fmt.Sprintf("bump(file%d)", o.A)
	case "addEdge":
		return fmt.Sprintf("AddEdge(%s->%s,%s)", n(o.A), n(o.B), c17EdgeKinds[o.Kind])
	case "rmEdge":
		if o.Kind < 0 {
			return fmt.Sprintf("RemoveEdge(%s->%s,nil)", n(o.A), n(o.B))
		}
		return fmt.Sprintf("RemoveEdge(%s->%s,%s)", n(o.A), n(o.B), c17EdgeKinds[o.Kind])
	case "addField":
		return fmt.Sprintf("AddField(%s:%s)", n(o.A), n(o.B))
	case "addStruct", "addEnum":
		var s []string
		for _, i := range o.Sub {
			s = append(s, n(i))
		}
		return fmt.Sprintf("%s(%s{%s})", strings.ToUpper(o.Op[:1])+o.Op[1:], n(o.A), strings.Join(s, ","))
	default:
		return fmt.Sprintf("%s(%s)", strings.ToUpper(o.Op[:1])+o.Op[1:], n(o.A))
	}
}

func c17ByKind(kinds ...string) []int {
	var out []int
	for i, e := range c17Universe {
		for _, k := range kinds {
			if e.Kind == k {
				out = append(out, i)
			}
		}
	}
	return out
}

// c17RawOp is one independently drawn operation; back-references (repeat an earlier op,
// reuse the endpoints of the latest AddEdge) are resolved after the whole slice is drawn,
// so that rapid can shrink the history by deleting elements.
type c17RawOp struct {
	Op    c17Op
	Ref   int  // for "repeat": index into the earlier ops (mod)
	Reuse bool // for addEdge/rmEdge: take the endpoints of the latest AddEdge
}

func c17OpGen() *rapid.Generator[c17RawOp] {
	all := seq(len(c17Universe))
	declared := c17ByKind("struct", "field", "enum", "value", "alias", "const")
	// most edge traffic happens inside a small focus set so that pairs get revisited
	focus := []int{c17ElemIdx("S0"), c17ElemIdx("S1"), c17ElemIdx("f0"), c17ElemIdx("f2"), c17ElemIdx("E0")}
	pick := func(t *rapid.T, wide []int, label string) int {
		if rapid.IntRange(0, 3).Draw(t, label+"Focus") > 0 {
			return rapid.SampledFrom(focus).Draw(t, label)
		}
		return rapid.SampledFrom(wide).Draw(t, label)
	}
	return rapid.Custom(func(t *rapid.T) c17RawOp {
		var o c17Op
		r := c17RawOp{}
		switch rapid.SampledFrom([]string{
			"addPrim", "addSpecial", "addStruct", "addStruct", "addField", "addField", "addField", "addEnum", "addEnum",
			"addAlias", "addConst", "addEdge", "addEdge", "addEdge", "addEdge", "rmEdge", "rmEdge", "rmEdge",
			"rmNode", "rmNode", "rmNode", "bump", "repeat", "twoKinds", "twoKinds",
		}).Draw(t, "op") {
		case "twoKinds": // expanded into AddEdge(a,b,k1); AddEdge(a,b,k2); RemoveEdge(a,b,k1|k2|other)
			o = c17Op{Op: "twoKinds", A: pick(t, declared, "a"), B: pick(t, all, "b"),
				Kind: rapid.IntRange(0, len(c17EdgeKinds)-1).Draw(t, "kind")}
			r.Ref = rapid.IntRange(0, 1000).Draw(t, "variant")
		case "repeat": // repeat an earlier operation verbatim (re-insertion / double removal)
			o = c17Op{Op: "repeat"}
			r.Ref = rapid.IntRange(0, 1000).Draw(t, "which")
		case "addPrim":
			o = c17Op{Op: "addPrim", A: rapid.SampledFrom(c17ByKind("prim")).Draw(t, "a")}
		case "addSpecial":
			o = c17Op{Op: "addSpecial", A: rapid.SampledFrom(c17ByKind("special")).Draw(t, "a")}
		case "addStruct":
			s := rapid.SampledFrom(c17ByKind("struct")).Draw(t, "a")
			var fields []int
			for _, f := range c17ByKind("field") {
				if c17Universe[f].File == c17Universe[s].File && rapid.Bool().Draw(t, "hasField") {
					fields = append(fields, f)
				}
			}
			o = c17Op{Op: "addStruct", A: s, Sub: fields}
		case "addField":
			o = c17Op{Op: "addField", A: rapid.SampledFrom(c17ByKind("field")).Draw(t, "a"),
				B: rapid.SampledFrom(c17ByKind("prim", "special", "struct", "enum", "alias")).Draw(t, "type")}
		case "addEnum":
			var vals []int
			for _, v := range c17ByKind("value") {
				if rapid.IntRange(0, 3).Draw(t, "hasValue") > 0 {
					vals = append(vals, v)
				}
			}
			// B carries the value kind (a primitive)
			o = c17Op{Op: "addEnum", A: c17ElemIdx("E0"), B: rapid.SampledFrom(c17ByKind("prim")).Draw(t, "vk"), Sub: vals}
		case "addAlias":
			o = c17Op{Op: "addAlias", A: c17ElemIdx("A0")}
		case "addConst":
			o = c17Op{Op: "addConst", A: rapid.SampledFrom(c17ByKind("const", "value")).Draw(t, "a")}
		case "addEdge":
			// AddEdge takes any node as its source, built-ins included (the visitors never do that; the API allows it)
			from := declared
			if rapid.IntRange(0, 5).Draw(t, "fromAny") == 0 {
				from = all
			}
			o = c17Op{Op: "addEdge", A: pick(t, from, "a"), B: pick(t, all, "b"),
				Kind: rapid.IntRange(0, len(c17EdgeKinds)-1).Draw(t, "kind")}
			// bias: a second kind between an already connected pair
			r.Reuse = rapid.IntRange(0, 2).Draw(t, "again") == 0
		case "rmEdge":
			o = c17Op{Op: "rmEdge", A: pick(t, declared, "a"), B: pick(t, all, "b"),
				Kind: rapid.IntRange(-1, len(c17EdgeKinds)-1).Draw(t, "kind")}
			r.Reuse = rapid.IntRange(0, 3).Draw(t, "existing") > 0
		case "rmNode":
			o = c17Op{Op: "rmNode", A: pick(t, all, "a")}
		case "bump":
			o = c17Op{Op: "bump", A: rapid.IntRange(0, 1).Draw(t, "file")}
		}
		r.Op = o
		return r
	})
}

func c17Gen(t *rapid.T) c17Model {
	raw := rapid.SliceOfN(c17OpGen(), 1, 60).Draw(t, "ops")
	var m c17Model
	// Most histories start from a small populated graph (the shapes the visitors build:
	// struct -> fields -> types, enum -> values -> primitive), so that removals cascade.
	if rapid.IntRange(0, 4).Draw(t, "seeded") > 0 {
		ix := c17ElemIdx
		m.Ops = append(m.Ops,
			c17Op{Op: "addStruct", A: ix("S1"), Sub: []int{ix("f2")}},
			c17Op{Op: "addField", A: ix("f2"), B: ix("string")},
			c17Op{Op: "addStruct", A: ix("S0"), Sub: []int{ix("f0"), ix("f1")}},
			c17Op{Op: "addField", A: ix("f0"), B: ix("S1")},
			c17Op{Op: "addEnum", A: ix("E0"), B: ix("int"), Sub: []int{ix("v0"), ix("v1")}},
			c17Op{Op: "addField", A: ix("f1"), B: ix("E0")},
		)
	}
	for _, r := range raw {
		o := r.Op
		if o.Op == "twoKinds" {
			k2 := (o.Kind + 1 + r.Ref%3) % len(c17EdgeKinds)
			rm := []int{o.Kind, k2, (k2 + 1) % len(c17EdgeKinds)}[(r.Ref/3)%3]
			m.Ops = append(m.Ops,
				c17Op{Op: "addEdge", A: o.A, B: o.B, Kind: o.Kind},
				c17Op{Op: "addEdge", A: o.A, B: o.B, Kind: k2},
				c17Op{Op: "rmEdge", A: o.A, B: o.B, Kind: rm})
			continue
		}
		if o.Op == "repeat" {
			if len(m.Ops) == 0 {
				continue
			}
			o = m.Ops[r.Ref%len(m.Ops)]
		} else if r.Reuse {
			for j := len(m.Ops) - 1; j >= 0; j-- {
				if m.Ops[j].Op == "addEdge" {
					o.A, o.B = m.Ops[j].A, m.Ops[j].B
					if o.Op == "rmEdge" && o.Kind >= 0 && (o.A+o.B+j)%2 == 0 {
						o.Kind = m.Ops[j].Kind
					}
					break
				}
			}
		}
		m.Ops = append(m.Ops, o)
	}
	return m
}

// ---- reference model --------------------------------------------------------------

type c17Edge struct {
	From, To string // base ids
	Kind     symboldg.SymbolEdgeKind
}

type c17Ref struct {
	nodes map[string]int // base id -> version (0 for builtins)
	kinds map[string]common.SymKind
	edges map[c17Edge]bool
}

func (r *c17Ref) addEdge(f, t string, k symboldg.SymbolEdgeKind) { r.edges[c17Edge{f, t, k}] = true }

func (r *c17Ref) removeNode(x string, depth *int) {
	if _, ok := r.nodes[x]; !ok {
		return
	}
	*depth++
	depSet := map[string]bool{}
	for e := range r.edges {
		if e.To == x {
			depSet[e.From] = true
		}
	}
	deps := make([]string, 0, len(depSet))
	for d := range depSet {
		deps = append(deps, d)
	}
	sort.Strings(deps)
	for _, d := range deps {
		for e := range r.edges {
			if e.From == d && e.To == x {
				delete(r.edges, e)
			}
		}
		orphan := true
		for e := range r.edges {
			if e.From == d {
				if _, ok := r.nodes[e.To]; ok {
					orphan = false
					break
				}
			}
		}
		if orphan {
			r.removeNode(d, depth)
		}
	}
	for e := range r.edges {
		if e.From == x {
			delete(r.edges, e)
		}
	}
	delete(r.nodes, x)
	delete(r.kinds, x)
}

// addNode mirrors "re-inserting changes nothing; a different file version replaces".
func (r *c17Ref) addNode(id string, version int, kind common.SymKind, stats *c17Stats) {
	if v, ok := r.nodes[id]; ok {
		if v == version {
			stats.reinserts++
			return
		}
		hadDependants := false
		for e := range r.edges {
			if e.To == id {
				hadDependants = true
			}
		}
		if hadDependants {
			stats.replaceWithDependants++
		}
		d := 0
		r.removeNode(id, &d)
		if d > stats.maxCascade {
			stats.maxCascade = d
		}
	}
	r.nodes[id] = version
	r.kinds[id] = kind
}

type c17Stats struct {
	reinserts, replaceWithDependants, maxCascade int
	kindRemovalAfterSecondKind                   bool
	effectiveSteps                               int
}

// ---- execution against the real graph ----------------------------------------------

type c17World struct {
	g        symboldg.SymbolGraph
	fileVer  [2]int
	ref      c17Ref
	stats    c17Stats
	astNodes map[string]ast.Node
}

func c17FileVersion(file, ver int) *gast.FileVersion {
	return &gast.FileVersion{
		Path:    fmt.Sprintf("/proj/file%d.go", file),
		ModTime: time.Unix(int64(1700000000+ver), 0),
		Hash:    fmt.Sprintf("h%d", ver),
	}
}

func (w *c17World) astNode(e c17Elem) ast.Node {
	if n, ok := w.astNodes[e.Name]; ok {
		return n
	}
	id := &ast.Ident{Name: e.Name, NamePos: e.Pos}
	var n ast.Node
	switch e.Kind {
	case "struct", "enum", "alias":
		n = &ast.TypeSpec{Name: id}
	case "field":
		n = &ast.Field{Names: []*ast.Ident{id}}
	default:
		n = &ast.ValueSpec{Names: []*ast.Ident{id}}
	}
	w.astNodes[e.Name] = n
	return n
}

// key is what a caller analysing the current sources would compute for this element.
func (w *c17World) key(i int) graphs.SymbolKey {
	e := c17Universe[i]
	switch e.Kind {
	case "prim":
		return graphs.NewUniverseSymbolKey(e.Name)
	case "special":
		if common.SpecialType(e.Name).IsUniverse() {
			return graphs.NewUniverseSymbolKey(e.Name)
		}
		return graphs.NewNonUniverseBuiltInSymbolKey(e.Name)
	}
	return graphs.NewSymbolKey(w.astNode(e), c17FileVersion(e.File, w.fileVer[e.File]))
}

func (w *c17World) base(i int) string { return w.key(i).BaseId() }

func (w *c17World) meta(i int) metadata.SymNodeMeta {
	e := c17Universe[i]
	return metadata.SymNodeMeta{Name: e.Name, Node: w.astNode(e), PkgPath: "example/pkg", FVersion: c17FileVersion(e.File, w.fileVer[e.File])}
}

func (w *c17World) typeUsage(i int) metadata.TypeUsageMeta {
	k := w.key(i)
	return metadata.TypeUsageMeta{SymNodeMeta: metadata.SymNodeMeta{Name: c17Universe[i].Name}, Root: &typeref.NamedTypeRef{Key: k}}
}

func c17BuiltinKind(e c17Elem) common.SymKind {
	if e.Kind == "prim" {
		return common.SymKindBuiltin
	}
	return common.SymKindSpecialBuiltin
}

func (w *c17World) ensureBuiltin(i int) {
	id := w.base(i)
	if _, ok := w.ref.nodes[id]; !ok {
		w.ref.nodes[id] = 0
		w.ref.kinds[id] = c17BuiltinKind(c17Universe[i])
	}
}

func (w *c17World) apply(o c17Op) error {
	ver := func(i int) int { return w.fileVer[c17Universe[i].File] }
	before := len(w.ref.nodes)*1000 + len(w.ref.edges)
	defer func() {
		if len(w.ref.nodes)*1000+len(w.ref.edges) != before {
			w.stats.effectiveSteps++
		}
	}()
	switch o.Op {
	case "bump":
		w.fileVer[o.A]++
	case "addPrim":
		w.g.AddPrimitive(common.PrimitiveType(c17Universe[o.A].Name))
		w.ensureBuiltin(o.A)
	case "addSpecial":
		w.g.AddSpecial(common.SpecialType(c17Universe[o.A].Name))
		w.ensureBuiltin(o.A)
	case "addStruct":
		sm := metadata.StructMeta{SymNodeMeta: w.meta(o.A)}
		for _, f := range o.Sub {
			sm.Fields = append(sm.Fields, metadata.FieldMeta{SymNodeMeta: w.meta(f)})
		}
		if _, err := w.g.AddStruct(symboldg.CreateStructNode{Data: sm}); err != nil {
			return err
		}
		w.ref.addNode(w.base(o.A), ver(o.A), common.SymKindStruct, &w.stats)
		for _, f := range o.Sub {
			w.ref.addEdge(w.base(o.A), w.base(f), symboldg.EdgeKindField)
		}
	case "addField":
		fm := metadata.FieldMeta{SymNodeMeta: w.meta(o.A), Type: w.typeUsage(o.B)}
		fm.SymbolKind = common.SymKindField
		_, err := w.g.AddField(symboldg.CreateFieldNode{Data: fm})
		// the node is inserted before the type is resolved; a missing declared type is an error
		w.ref.addNode(w.base(o.A), ver(o.A), common.SymKindField, &w.stats)
		te := c17Universe[o.B]
		_, typeExists := w.ref.nodes[w.base(o.B)]
		switch {
		case te.Kind == "prim" || te.Kind == "special":
			w.ensureBuiltin(o.B)
			typeExists = true
		}
		if typeExists {
			if err != nil {
				return fmt.Errorf("AddField with an existing type failed: %w", err)
			}
			w.ref.addEdge(w.base(o.A), w.base(o.B), symboldg.EdgeKindType)
		} else if err == nil {
			return fmt.Errorf("AddField with a missing declared type did not fail")
		}
	case "addEnum":
		em := metadata.EnumMeta{SymNodeMeta: w.meta(o.A), ValueKind: metadata.EnumValueKind(c17Universe[o.B].Name)}
		for _, v := range o.Sub {
			em.Values = append(em.Values, metadata.EnumValueDefinition{SymNodeMeta: w.meta(v), Value: c17Universe[v].Name})
		}
		if _, err := w.g.AddEnum(symboldg.CreateEnumNode{Data: em}); err != nil {
			return err
		}
		w.ref.addNode(w.base(o.A), ver(o.A), common.SymKindEnum, &w.stats)
		w.ensureBuiltin(o.B)
		for _, v := range o.Sub {
			w.ref.addNode(w.base(v), ver(v), common.SymKindConstant, &w.stats)
			w.ref.addEdge(w.base(o.A), w.base(v), symboldg.EdgeKindValue)
			w.ref.addEdge(w.base(v), w.base(o.B), symboldg.EdgeKindReference)
		}
	case "addAlias":
		if _, err := w.g.AddAlias(symboldg.CreateAliasNode{Data: metadata.AliasMeta{SymNodeMeta: w.meta(o.A)}}); err != nil {
			return err
		}
		w.ref.addNode(w.base(o.A), ver(o.A), common.SymKindAlias, &w.stats)
	case "addConst":
		if _, err := w.g.AddConst(symboldg.CreateConstNode{Data: metadata.ConstMeta{SymNodeMeta: w.meta(o.A)}}); err != nil {
			return err
		}
		w.ref.addNode(w.base(o.A), ver(o.A), common.SymKindConstant, &w.stats)
	case "addEdge":
		w.g.AddEdge(w.key(o.A), w.key(o.B), c17EdgeKinds[o.Kind], nil)
		w.ref.addEdge(w.base(o.A), w.base(o.B), c17EdgeKinds[o.Kind])
	case "rmEdge":
		f, t := w.base(o.A), w.base(o.B)
		if o.Kind < 0 {
			w.g.RemoveEdge(w.key(o.A), w.key(o.B), nil)
			for e := range w.ref.edges {
				if e.From == f && e.To == t {
					delete(w.ref.edges, e)
				}
			}
		} else {
			k := c17EdgeKinds[o.Kind]
			others := 0
			for e := range w.ref.edges {
				if e.From == f && e.To == t && e.Kind != k {
					others++
				}
			}
			if others > 0 && w.ref.edges[c17Edge{f, t, k}] {
				w.stats.kindRemovalAfterSecondKind = true
			}
			w.g.RemoveEdge(w.key(o.A), w.key(o.B), &k)
			delete(w.ref.edges, c17Edge{f, t, k})
		}
	case "rmNode":
		w.g.RemoveNode(w.key(o.A))
		d := 0
		w.ref.removeNode(w.base(o.A), &d)
		if d > w.stats.maxCascade {
			w.stats.maxCascade = d
		}
	default:
		return fmt.Errorf("unknown op %q", o.Op)
	}
	return nil
}

func c17Set(items []string) string {
	sort.Strings(items)
	// de-duplicate: Children/Parents may list a node once per connecting edge
	out := items[:0]
	for i, s := range items {
		if i == 0 || s != items[i-1] {
			out = append(out, s)
		}
	}
	return strings.Join(out, " ")
}

func c17EdgeStr(e c17Edge) string { return e.From + " -" + string(e.Kind) + "-> " + e.To }

// observe compares every public view with the model; returns the first disagreement.
func (w *c17World) observe() *harness.Viol {
	short := func(s string) string { // base ids are long; keep messages readable
		s = strings.ReplaceAll(s, "@/proj/file", "@f")
		return strings.ReplaceAll(s, graphs.UniverseTypeSymKeyPrefix, "")
	}
	fail := func(clause, format string, a ...any) *harness.Viol {
		return &harness.Viol{Signature: "C17:" + clause, Message: short(fmt.Sprintf(format, a...))}
	}
	baseOf := map[string]int{}
	for i := range c17Universe {
		baseOf[w.base(i)] = i
	}
	for i := range c17Universe {
		k := w.key(i)
		id := k.BaseId()
		_, want := w.ref.nodes[id]
		if w.g.Exists(k) != want {
			return fail("exists", "Exists(%s)=%v, model says %v", c17Universe[i].Name, !want, want)
		}
		node := w.g.Get(k)
		if (node != nil) != want {
			return fail("get", "Get(%s) nil=%v, model exists=%v", c17Universe[i].Name, node == nil, want)
		}
		if node != nil {
			if node.Kind != w.ref.kinds[id] {
				return fail("node-kind", "%s has kind %s, model %s", c17Universe[i].Name, node.Kind, w.ref.kinds[id])
			}
			if c17Universe[i].File >= 0 {
				wantV := c17FileVersion(c17Universe[i].File, w.ref.nodes[id])
				if node.Version == nil || !node.Version.Equals(wantV) {
					return fail("node-version", "%s is held at version %v, model says %s", c17Universe[i].Name, node.Version, wantV.Hash)
				}
			}
		}
		// GetEdges(k, nil) == model edges touching k
		var wantEdges, gotEdges []string
		for e := range w.ref.edges {
			if e.From == id || e.To == id {
				wantEdges = append(wantEdges, c17EdgeStr(e))
			}
		}
		var gotOut, gotIn []c17Edge
		for _, d := range w.g.GetEdges(k, nil) {
			e := c17Edge{d.Edge.From.BaseId(), d.Edge.To.BaseId(), d.Edge.Kind}
			gotEdges = append(gotEdges, c17EdgeStr(e))
			if e.From == id {
				gotOut = append(gotOut, e)
			}
			if e.To == id {
				gotIn = append(gotIn, e)
			}
		}
		if c17Set(gotEdges) != c17Set(wantEdges) {
			clause := "edges"
			// name the duality failure precisely: an edge the other endpoint lists but this one does not
			return fail(clause, "GetEdges(%s): got {%s} want {%s}", c17Universe[i].Name, c17Set(gotEdges), c17Set(wantEdges))
		}
		// outgoing-of-a contains e <=> incoming-of-b contains e
		for _, e := range gotOut {
			if j, ok := baseOf[e.To]; ok {
				found := false
				for _, d := range w.g.GetEdges(w.key(j), nil) {
					if d.Edge.From.BaseId() == e.From && d.Edge.To.BaseId() == e.To && d.Edge.Kind == e.Kind {
						found = true
					}
				}
				if !found {
					return fail("duality", "edge %s is among %s's outgoing edges but not among %s's incoming ones", c17EdgeStr(e), c17Universe[i].Name, c17Universe[j].Name)
				}
			}
		}
		_ = gotIn
		// kind-filtered view
		for _, kind := range c17EdgeKinds {
			var wantK, gotK []string
			for e := range w.ref.edges {
				if (e.From == id || e.To == id) && e.Kind == kind {
					wantK = append(wantK, c17EdgeStr(e))
				}
			}
			for _, d := range w.g.GetEdges(k, []symboldg.SymbolEdgeKind{kind}) {
				gotK = append(gotK, c17EdgeStr(c17Edge{d.Edge.From.BaseId(), d.Edge.To.BaseId(), d.Edge.Kind}))
			}
			if c17Set(gotK) != c17Set(wantK) {
				return fail("edges-by-kind", "GetEdges(%s,[%s]): got {%s} want {%s}", c17Universe[i].Name, kind, c17Set(gotK), c17Set(wantK))
			}
		}
		if node == nil {
			continue
		}
		// Children / Parents / Descendants
		var wantC, wantP, gotC, gotP []string
		for e := range w.ref.edges {
			if e.From == id {
				if _, ok := w.ref.nodes[e.To]; ok {
					wantC = append(wantC, e.To)
				}
			}
			if e.To == id {
				if _, ok := w.ref.nodes[e.From]; ok {
					wantP = append(wantP, e.From)
				}
			}
		}
		for _, c := range w.g.Children(node, nil) {
			gotC = append(gotC, c.Id.BaseId())
		}
		for _, p := range w.g.Parents(node, nil) {
			gotP = append(gotP, p.Id.BaseId())
		}
		if c17Set(gotC) != c17Set(wantC) {
			return fail("children", "Children(%s): got {%s} want {%s}", c17Universe[i].Name, c17Set(gotC), c17Set(wantC))
		}
		if c17Set(gotP) != c17Set(wantP) {
			return fail("parents", "Parents(%s): got {%s} want {%s}", c17Universe[i].Name, c17Set(gotP), c17Set(wantP))
		}
		reach := map[string]bool{}
		var walk func(string)
		walk = func(x string) {
			for e := range w.ref.edges {
				if e.From == x {
					if _, ok := w.ref.nodes[e.To]; ok && !reach[e.To] {
						reach[e.To] = true
						walk(e.To)
					}
				}
			}
		}
		walk(id)
		var wantD, gotD []string
		for x := range reach {
			wantD = append(wantD, x)
		}
		for _, d := range w.g.Descendants(node, nil) {
			gotD = append(gotD, d.Id.BaseId())
		}
		if c17Set(gotD) != c17Set(wantD) {
			return fail("descendants", "Descendants(%s): got {%s} want {%s}", c17Universe[i].Name, c17Set(gotD), c17Set(wantD))
		}
	}
	// FindByKind per kind
	for _, kind := range []common.SymKind{common.SymKindStruct, common.SymKindField, common.SymKindEnum, common.SymKindConstant,
		common.SymKindAlias, common.SymKindBuiltin, common.SymKindSpecialBuiltin} {
		var want, got []string
		for id, k := range w.ref.kinds {
			if k == kind {
				want = append(want, id)
			}
		}
		for _, n := range w.g.FindByKind(kind) {
			got = append(got, n.Id.BaseId())
		}
		sort.Strings(got)
		for j := 1; j < len(got); j++ {
			if got[j] == got[j-1] {
				return fail("find-by-kind", "FindByKind(%s) lists %s twice", kind, got[j])
			}
		}
		if c17Set(got) != c17Set(want) {
			return fail("find-by-kind", "FindByKind(%s): got {%s} want {%s}", kind, c17Set(got), c17Set(want))
		}
	}
	return nil
}

func c17Exec(m c17Model) (*c17World, []harness.Viol) {
	w := &c17World{g: symboldg.NewSymbolGraph(), fileVer: [2]int{1, 1},
		ref:      c17Ref{nodes: map[string]int{}, kinds: map[string]common.SymKind{}, edges: map[c17Edge]bool{}},
		astNodes: map[string]ast.Node{}}
	for step, o := range m.Ops {
		if o.A < 0 || o.A >= len(c17Universe) || o.B < 0 || o.B >= len(c17Universe) || o.Kind >= len(c17EdgeKinds) {
			continue // malformed replay file
		}
		if err := w.apply(o); err != nil {
			return w, []harness.Viol{{Signature: "C17:unexpected-error:" + o.Op,
				Message: fmt.Sprintf("step %d %s: %v; history=%s", step, o, err, c17History(m, step))}}
		}
		if v := w.observe(); v != nil {
			v.Message = fmt.Sprintf("after step %d %s: %s; history=%s", step, o, v.Message, c17History(m, step))
			return w, []harness.Viol{*v}
		}
	}
	return w, nil
}

func c17History(m c17Model, upto int) string {
	var s []string
	for i, o := range m.Ops {
		if i > upto {
			break
		}
		s = append(s, o.String())
	}
	return strings.Join(s, "; ")
}

func c17Check(m c17Model, rec *ev.Recorder) []harness.Viol {
	_, v := c17Exec(m)
	return v
}

func c17Classify(m c17Model) harness.Class {
	// run against the model only (cheap: the real graph is exercised too, but results are ignored here)
	w, _ := c17Exec(m)
	c := harness.Class{}
	if w.stats.kindRemovalAfterSecondKind {
		c.Labels = append(c.Labels, "kind-removal-with-second-kind-present")
	}
	if w.stats.maxCascade >= 2 {
		c.Labels = append(c.Labels, "cascade-depth>=2")
	}
	if w.stats.replaceWithDependants > 0 {
		c.Labels = append(c.Labels, "version-replacement-with-dependants")
	}
	if w.stats.reinserts > 0 {
		c.Labels = append(c.Labels, "reinsert-same-version")
	}
	if w.stats.effectiveSteps >= 5 {
		c.Labels = append(c.Labels, "effective-steps>=5")
	}
	c.NonTrivial = w.stats.kindRemovalAfterSecondKind || w.stats.maxCascade >= 2 || w.stats.replaceWithDependants > 0
	return c
}

func TestC17(t *testing.T) {
	harness.Run(t, harness.Prop[c17Model]{
		ID:       "C17",
		Gen:      c17Gen,
		Check:    c17Check,
		Classify: c17Classify,
		Sample:   func(m c17Model) any { return c17History(m, len(m.Ops)) },
		Rule: "rapid draws histories of 1-40 operations (AddPrimitive/AddSpecial/AddStruct(fields)/AddField(type)/AddEnum(values)/AddAlias/AddConst/" +
			"AddEdge/RemoveEdge(kind|nil)/RemoveNode/file-version bump/verbatim repeat of an earlier op) over 15 fabricated symbols in 2 files; keys are the ones a caller " +
			"analysing the current file versions computes. Oracle = set-of-nodes/set-of-edges model compared after EVERY step through Exists/Get/GetEdges(nil and per kind)/" +
			"out-in duality/Children/Parents/Descendants/FindByKind. Non-trivial = history contains a kind-specific edge removal while another kind links the same pair, " +
			"or a removal cascade of depth>=2, or a version replacement of a node that has dependants; distinct = different canonical JSON of the history.",
		Assume: []string{
			"edges are modelled on base ids (file path, not file version), as the graph's own edge index does",
			"RemoveNode's orphan rule is the one documented in the code: a dependant is evicted when it has no remaining edge to an existing node",
			"AddField inserts the field node before resolving its type (a missing declared type is an error and leaves the node without a type edge)",
		},
		Floors: map[string]float64{"nontrivial": 0.2, "kind-removal-with-second-kind-present": 0.03, "cascade-depth>=2": 0.05, "version-replacement-with-dependants": 0.02},
	})
}
