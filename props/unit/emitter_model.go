package unit

import (
	"fmt"
	"strings"

	"github.com/gopher-fleece/gleece/v2/common"
	"github.com/gopher-fleece/gleece/v2/definitions"
	"github.com/gopher-fleece/runtime"
	"pgregory.net/rapid"
)

// Emitter-level model: the intermediate metadata (definitions.*) that both OpenAPI emitters
// consume, generated directly. It lets arbitrary validator strings and type names reach
// swagen.GenerateSpec thousands of times per second (no packages.Load).

type emField struct {
	Name     string `json:"name"`
	Type     string `json:"type"`
	JsonName string `json:"json,omitempty"`
	Validate string `json:"validate,omitempty"`
	RawTag   string `json:"rawTag,omitempty"` // when set: the whole struct tag verbatim (tags are free text to the compiler)
	Embedded bool   `json:"embedded,omitempty"`
}

type emStruct struct {
	Name   string    `json:"name"`
	Fields []emField `json:"fields"`
}

type emEnum struct {
	Name   string   `json:"name"`
	Type   string   `json:"type"`
	Values []string `json:"values"`
}

type emAlias struct {
	Name string `json:"name"`
	Type string `json:"type"`
}

type emParam struct {
	Name      string `json:"name"`
	Type      string `json:"type"`
	In        string `json:"in"` // Path Query Header Form Body
	Validator string `json:"validator,omitempty"`
}

type emRoute struct {
	Op       string    `json:"op"`
	Verb     string    `json:"verb"`
	Params   []emParam `json:"params"`
	Ret      string    `json:"ret,omitempty"`
	ErrType  string    `json:"errType"`
	ErrCodes []int     `json:"errCodes,omitempty"`
	Hidden   bool      `json:"hidden,omitempty"`
}

type emModel struct {
	Structs []emStruct `json:"structs"`
	Enums   []emEnum   `json:"enums"`
	Aliases []emAlias  `json:"aliases"`
	Routes  []emRoute  `json:"routes"`
}

var emRuleNames = []string{"email", "uuid", "ip", "ipv4", "ipv6", "hostname", "date", "datetime", "gt", "gte", "lt", "lte", "min", "max",
	"len", "pattern", "minItems", "maxItems", "uniqueItems", "enum", "oneof", "required", "", "foo", "dive", "omitempty"}

var emRuleArgs = []string{"", "abc", "1", "-1", "1.5", "0", "9999999999999999999999", "a|b|c", "a b c", "1 2 x", "true", "maybe",
	"^[a-z]+$", "ü", " ", "=", "NaN", "Inf", "1e400", "|", "-", "0x10", "１"}

var emTypes = []string{"string", "int", "int64", "uint8", "float32", "float64", "bool", "[]string", "[]int", "[][]string", "map[string]int",
	"map[string][]S1", "map[string]S2", "time.Time", "[]byte", "any", "interface{}", "S1", "S2", "S3", "[]S1", "[]S3", "E1", "E2", "[]E1",
	"A1", "Unknown", "", "map[", "[]", "error"}

func emValidatorGen() *rapid.Generator[string] {
	return rapid.Custom(func(t *rapid.T) string {
		switch rapid.IntRange(0, 9).Draw(t, "vkind") {
		case 0:
			return ""
		case 1:
			return rapid.String().Draw(t, "raw")
		}
		n := rapid.IntRange(1, 4).Draw(t, "nrules")
		rules := make([]string, n)
		for i := range rules {
			name := rapid.SampledFrom(emRuleNames).Draw(t, "rule")
			if rapid.Bool().Draw(t, "hasArg") {
				name += "=" + rapid.SampledFrom(emRuleArgs).Draw(t, "arg")
			}
			rules[i] = name
		}
		return strings.Join(rules, ",")
	})
}

func emGen(t *rapid.T) emModel {
	var m emModel
	// struct declaration order is drawn: forward and backward references both occur
	names := rapid.Permutation([]string{"S1", "S2", "S3"}).Draw(t, "structOrder")
	names = names[:rapid.IntRange(0, 3).Draw(t, "nstructs")]
	for _, n := range names {
		s := emStruct{Name: n}
		nf := rapid.IntRange(0, 4).Draw(t, "nfields")
		for i := 0; i < nf; i++ {
			f := emField{Name: fmt.Sprintf("F%d", i), Type: rapid.SampledFrom(emTypes).Draw(t, "ftype"), Validate: emValidatorGen().Draw(t, "fval")}
			if rapid.IntRange(0, 3).Draw(t, "hasJson") == 0 {
				f.JsonName = rapid.SampledFrom([]string{"f", "-", "", "a,omitempty", "ü"}).Draw(t, "json")
			}
			if rapid.IntRange(0, 7).Draw(t, "rawTag") == 0 {
				f.RawTag = strings.Join(rapid.SliceOfN(rapid.SampledFrom([]string{`json:"`, `validate:"`, `"`, `"`, " ", ":", "name", "required", ",", `\`, "-", "omitempty", "min=1", "oneof=a b", `json:"n"`, `validate:"required"`, "ü"}), 1, 6).Draw(t, "rawTagTokens"), "")
			}
			if rapid.IntRange(0, 7).Draw(t, "embedded") == 0 {
				f.Embedded = true
				f.Type = rapid.SampledFrom([]string{"S1", "S2", "S3", "error", "Unknown"}).Draw(t, "etype")
				f.Name = f.Type
			}
			s.Fields = append(s.Fields, f)
		}
		m.Structs = append(m.Structs, s)
	}
	for i, n := range []string{"E1", "E2"}[:rapid.IntRange(0, 2).Draw(t, "nenums")] {
		_ = i
		m.Enums = append(m.Enums, emEnum{Name: n, Type: rapid.SampledFrom([]string{"string", "int", "float64", "bool", "uint8", "weird"}).Draw(t, "etype"),
			Values: rapid.SliceOfN(rapid.SampledFrom([]string{"a", "b", "1", "2", "1.5", "true", "", "x y"}), 0, 3).Draw(t, "evals")})
	}
	if rapid.Bool().Draw(t, "alias") {
		m.Aliases = append(m.Aliases, emAlias{Name: "A1", Type: rapid.SampledFrom([]string{"string", "int", "[]string", "S1", "Unknown"}).Draw(t, "atype")})
	}
	nr := rapid.IntRange(0, 3).Draw(t, "nroutes")
	for i := 0; i < nr; i++ {
		r := emRoute{Op: fmt.Sprintf("Op%d", i), Verb: rapid.SampledFrom([]string{"GET", "POST", "PUT", "DELETE", "PATCH"}).Draw(t, "verb"),
			ErrType: rapid.SampledFrom([]string{"error", "error", "S1", "Unknown"}).Draw(t, "errType"), Hidden: rapid.IntRange(0, 9).Draw(t, "hidden") == 0}
		// Shapes the validators let through (C10): at most one body, never a body together with form
		// fields, non-body parameters are primitives, enums or primitive aliases (slices only in query).
		np := rapid.IntRange(0, 4).Draw(t, "nparams")
		bodyMode := rapid.SampledFrom([]string{"none", "body", "form"}).Draw(t, "bodyMode")
		hasBody := false
		for j := 0; j < np; j++ {
			ins := []string{"Path", "Query", "Query", "Header"}
			if bodyMode == "form" {
				ins = append(ins, "Form", "Form")
			}
			if bodyMode == "body" && !hasBody {
				ins = append(ins, "Body", "Body")
			}
			in := rapid.SampledFrom(ins).Draw(t, "in")
			var typ string
			switch in {
			case "Body":
				hasBody = true
				typ = rapid.SampledFrom([]string{"S1", "S2", "S3", "[]S1", "map[string]int", "map[string]S2", "[]string", "Unknown"}).Draw(t, "btype")
			case "Query":
				typ = rapid.SampledFrom([]string{"string", "int", "int64", "uint8", "float32", "float64", "bool", "E1", "E2", "A1", "[]string", "[]int", "[]E1"}).Draw(t, "qtype")
			default:
				typ = rapid.SampledFrom([]string{"string", "int", "int64", "uint8", "float32", "float64", "bool", "E1", "E2", "A1"}).Draw(t, "ptype")
			}
			r.Params = append(r.Params, emParam{Name: fmt.Sprintf("p%d", j), Type: typ, In: in, Validator: emValidatorGen().Draw(t, "pval")})
		}
		if rapid.Bool().Draw(t, "hasRet") {
			r.Ret = rapid.SampledFrom(emTypes).Draw(t, "ret")
		}
		r.ErrCodes = rapid.SliceOfNDistinct(rapid.SampledFrom([]int{400, 404, 409, 500, 503}), 0, 2, func(i int) int { return i }).Draw(t, "errCodes")
		m.Routes = append(m.Routes, r)
	}
	return m
}

func (m emModel) hasPlainError() bool {
	for _, r := range m.Routes {
		if r.ErrType == "error" {
			return true
		}
	}
	return false
}

// metadata builds fresh definitions.* values (the emitters mutate what they are given).
func (m emModel) metadata() ([]definitions.ControllerMetadata, *definitions.Models) {
	models := &definitions.Models{}
	for _, s := range m.Structs {
		sm := definitions.StructMetadata{Name: s.Name, PkgPath: "example/pkg"}
		for _, f := range s.Fields {
			var tags []string
			if f.JsonName != "" {
				tags = append(tags, fmt.Sprintf(`json:"%s"`, f.JsonName))
			}
			if f.Validate != "" {
				tags = append(tags, fmt.Sprintf(`validate:"%s"`, f.Validate))
			}
			tag := strings.Join(tags, " ")
			if f.RawTag != "" {
				tag = f.RawTag
			}
			sm.Fields = append(sm.Fields, definitions.FieldMetadata{Name: f.Name, Type: f.Type, Tag: tag, IsEmbedded: f.Embedded})
		}
		models.Structs = append(models.Structs, sm)
	}
	for _, e := range m.Enums {
		models.Enums = append(models.Enums, definitions.EnumMetadata{Name: e.Name, PkgPath: "example/pkg", Type: e.Type, Values: append([]string(nil), e.Values...)})
	}
	for _, a := range m.Aliases {
		models.Aliases = append(models.Aliases, definitions.NakedAliasMetadata{Name: a.Name, PkgPath: "example/pkg", Type: a.Type})
	}
	ctrl := definitions.ControllerMetadata{Name: "Ctl", PkgPath: "example/pkg", Tag: "Ctl", RestMetadata: definitions.RestMetadata{Path: "/c"}}
	for i, r := range m.Routes {
		path := fmt.Sprintf("/r%d", i)
		rm := definitions.RouteMetadata{OperationId: r.Op, HttpVerb: definitions.HttpVerb(r.Verb), ResponseSuccessCode: runtime.HttpStatusCode(200),
			RequestContentType: definitions.ContentTypeJSON, ResponseContentType: definitions.ContentTypeJSON}
		if r.Hidden {
			rm.Hiding = definitions.MethodHideOptions{Type: definitions.HideMethodAlways}
		} else {
			rm.Hiding = definitions.MethodHideOptions{Type: definitions.HideMethodNever}
		}
		for j, p := range r.Params {
			if p.In == "Path" {
				path += "/{" + p.Name + "}"
			}
			rm.FuncParams = append(rm.FuncParams, definitions.FuncParam{
				ParamMeta:    definitions.ParamMeta{Ordinal: j, Name: p.Name, TypeMeta: definitions.TypeMetadata{Name: p.Type, SymbolKind: common.SymKindUnknown}},
				PassedIn:     definitions.ParamPassedIn(p.In),
				NameInSchema: p.Name,
				Validator:    p.Validator,
			})
		}
		rm.RestMetadata = definitions.RestMetadata{Path: path}
		if r.Ret != "" {
			rm.HasReturnValue = true
			rm.Responses = append(rm.Responses, definitions.FuncReturnValue{Ordinal: 0, TypeMetadata: definitions.TypeMetadata{Name: r.Ret}})
		} else {
			rm.ResponseSuccessCode = runtime.HttpStatusCode(204)
		}
		rm.Responses = append(rm.Responses, definitions.FuncReturnValue{Ordinal: len(rm.Responses), TypeMetadata: definitions.TypeMetadata{Name: r.ErrType}})
		for _, c := range r.ErrCodes {
			rm.ErrorResponses = append(rm.ErrorResponses, definitions.ErrorResponse{HttpStatusCode: runtime.HttpStatusCode(c), Description: "err"})
		}
		ctrl.Routes = append(ctrl.Routes, rm)
	}
	return []definitions.ControllerMetadata{ctrl}, models
}

func emConfig(version string) *definitions.OpenAPIGeneratorConfig {
	return &definitions.OpenAPIGeneratorConfig{
		OpenAPI: version,
		Info:    definitions.OpenAPIInfo{Title: "t", Version: "1"},
		BaseURL: "https://example.com",
	}
}
