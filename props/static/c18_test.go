package static

import (
	"fmt"
	"os"
	"path/filepath"
	"regexp"
	"slices"
	"strings"
	"testing"
	"time"
	"unicode/utf8"

	"github.com/gopher-fleece/gleece/v2/core/validators/diagnostics"
	"pgregory.net/rapid"

	"verif/internal/ev"
	"verif/internal/harness"
	"verif/internal/lab"
	"verif/internal/projgen"
)

// C18 — diagnostics point at the construct they complain about.

// expected error codes per single perturbation (transcribed from the validators' rule table)
func c18ExpectedCodes(applied string) []string {
	kind := strings.SplitN(applied, ":", 2)[0]
	switch kind {
	case "dropAnn", "extraParam":
		return []string{"linker-unreferenced-parameter"}
	case "dupAnn", "retarget":
		return []string{"annotation-duplicate-value"}
	case "renameRef", "strayAnn", "aliasUnknown":
		return []string{"linker-path-annotation-invalid-reference"}
	case "aliasDup":
		// the second annotation's own template name is left unbound as well; either rule may be the one reported
		return []string{"linker-duplicate-path-alias-ref|linker-route-missing-path-reference"}
	case "aliasWrongType", "aliasWrongTypeAll", "aliasWrongTypeGhost":
		return []string{"annotation-properties-invalid-value-for-key"}
	case "dupTemplateName":
		return []string{"linker-duplicate-url-parameter"}
	case "unboundTemplateName", "prefixParam", "oddNameUnbound":
		return []string{"linker-route-missing-path-reference"}
	case "bodyAndForm":
		return []string{"annotation-mutually-exclusive"}
	case "bodyPrimitive":
		return []string{"receiver-invalid-body"}
	case "namesakeNotError":
		return []string{"receiver-return-value-is-not-an-error"}
	case "verb":
		if strings.HasSuffix(applied, ":get") || strings.HasSuffix(applied, ":FETCH") {
			return []string{"annotation-value-invalid"}
		}
		return []string{"unsupported-feature"}
	case "results":
		switch applied {
		case "results:()", "results:(string,int,error)":
			return []string{"receiver-return-values-invalid-signature"}
		case "results:(string)", "results:(string,models.Payload)", "results:(models.Payload)":
			return []string{"receiver-return-value-is-not-an-error"}
		}
	}
	return nil
}

var valueAnchored = map[string]bool{"annotation-value-invalid": true, "unsupported-feature": true, "linker-duplicate-url-parameter": true,
	"linker-route-missing-path-reference": true, "linker-multiple-parameter-refs": true}

var cliDiagLine = regexp.MustCompile(`(?m)^\t \S+ at \S+:\d+:\d+ - .*$`)

func c18Check(m lkModel, rec *ev.Recorder) []harness.Viol {
	ctrls, applied := lkApply(m)
	p := lkProject(ctrls, m.Noise)
	dir, err := lab.Scratch("c18-")
	if err != nil {
		rec.Inconclusive(err.Error())
		return nil
	}
	defer os.RemoveAll(dir)
	lay, err := p.WriteTo(dir, projgen.RenderOptions{}, lab.RepoRoot)
	if err != nil {
		rec.Inconclusive(err.Error())
		return nil
	}
	res := lab.RunInProcess(dir, lab.Want{Diags: true})
	if res.Panic != "" {
		rec.Label("gleece-panicked (reported under C14)", 1)
		return nil
	}
	if res.ValidateErr != nil {
		rec.Label("validate-returned-error", 1)
		return nil
	}
	fd := flattenDiags(res.Diags)
	if len(fd) == 0 {
		rec.Label("no-diagnostics", 1)
		return nil
	}
	rec.Label("has-diagnostics", 1)
	rec.AddExtraInt("diagnostics_checked", len(fd))
	desc := fmt.Sprintf("perturbations=%v\n%s", applied, lkDescribe(ctrls))
	var viols []harness.Viol
	add := func(sig, format string, a ...any) {
		viols = append(viols, harness.Viol{Signature: "C18:" + sig, Message: fmt.Sprintf(format, a...) + "\n" + desc})
	}
	// where things are
	type entity struct {
		file   string
		doc    projgen.Span
		decl   projgen.Span
		hasDoc bool
		values map[string]bool
	}
	ents := map[string]entity{}
	for _, c := range ctrls {
		d, ok := lay.CtrlDoc[c.Name]
		pkgDir := "api"
		if c.Pkg2 {
			pkgDir = "api2"
		}
		ents["Controller/"+c.Name] = entity{file: filepath.Join(pkgDir, c.File), doc: d, hasDoc: ok, decl: lay.CtrlDecl[c.Name], values: map[string]bool{c.Prefix: true, c.Name: true}}
		for _, r := range c.Routes {
			vals := map[string]bool{r.Verb: true, r.Route: true}
			for _, a := range r.Anns {
				vals[a.Ref] = true
			}
			for _, n := range lkTemplateNames(c.Prefix + r.Route) {
				vals["{"+n+"}"] = true
			}
			d, ok := lay.MethDoc[r.Name]
			ents["Receiver/"+r.Name] = entity{file: filepath.Join(pkgDir, r.File), doc: d, hasDoc: ok, decl: lay.MethDecl[r.Name], values: vals}
		}
	}
	for i, d := range fd {
		e, ok := ents[d.Kind+"/"+d.Entity]
		if !ok {
			add("unknown-entity", "diagnostic %s is attached to %s %q which the project does not contain", d.D.Code, d.Kind, d.Entity)
			continue
		}
		where := fmt.Sprintf("%s (%s %s) %q", d.D.Code, d.Kind, d.Entity, d.D.Message)
		wantFile := filepath.Join(dir, e.file)
		if d.D.FilePath != wantFile {
			add("wrong-file", "%s names file %s, the entity lives in %s", where, strings.TrimPrefix(d.D.FilePath, dir), e.file)
			continue
		}
		lines := lay.Files[e.file]
		r := d.D.Range
		if r.StartLine > r.EndLine || (r.StartLine == r.EndLine && r.StartCol > r.EndCol) {
			add("start-after-end", "%s has range %v", where, r)
			continue
		}
		if r.StartLine < 0 || r.EndLine >= len(lines) || r.StartCol < 0 || r.StartCol > len(lines[r.StartLine]) || r.EndCol < 0 || r.EndCol > len(lines[r.EndLine]) {
			add("range-outside-file", "%s has range %v; file has %d lines", where, r, len(lines))
			continue
		}
		inDoc := e.hasDoc && r.StartLine >= e.doc.StartLine && r.EndLine <= e.doc.EndLine
		inDecl := r.StartLine >= e.decl.StartLine && r.EndLine <= e.decl.EndLine
		spansBoth := e.hasDoc && r.StartLine >= e.doc.StartLine && r.EndLine <= e.decl.EndLine
		if !inDoc && !inDecl && !spansBoth {
			add("range-outside-entity", "%s has range %v; the entity's comment is lines %d-%d and its declaration lines %d-%d", where, r, e.doc.StartLine, e.doc.EndLine, e.decl.StartLine, e.decl.EndLine)
			continue
		}
		if valueAnchored[d.D.Code] && d.D.Severity == diagnostics.DiagnosticError {
			txt, ok := c16SliceRunes(lines, r.StartLine, r.StartCol, r.EndLine, r.EndCol)
			if !ok || !e.values[txt] {
				add("value-range-text:"+d.D.Code, "%s covers %q which is none of the annotation values %v", where, txt, keysOf(e.values))
			}
		}
		for j := i + 1; j < len(fd); j++ {
			if fd[j].D.Equal(d.D) {
				add("duplicate-diagnostic", "%s is reported twice in the diagnostics list", where)
				break
			}
		}
	}
	// code and severity documented for the violated rule (single perturbations only)
	if len(applied) == 1 {
		for _, want := range c18ExpectedCodes(applied[0]) {
			found, asError := false, false
			for _, d := range fd {
				if slices.Contains(strings.Split(want, "|"), d.D.Code) {
					found = true
					if d.D.Severity == diagnostics.DiagnosticError {
						asError = true
					}
				}
			}
			if found && !asError {
				add("severity:"+want, "perturbation %s: %s is never reported with error severity although the rule blocks generation", applied[0], want)
			}
			if !found {
				kind := strings.SplitN(applied[0], ":", 2)[0]
				add("code-for-rule:"+kind, "perturbation %s should be diagnosed as %s; reported codes: %v", applied[0], want, errorCodes(fd))
			}
		}
		kind := strings.SplitN(applied[0], ":", 2)[0]
		if kind != "results" {
			for _, d := range fd {
				if d.D.Code == "receiver-return-values-invalid-signature" {
					add("code-unrelated-to-rule:"+kind, "perturbation %s does not touch the return values, yet %q is reported with code receiver-return-values-invalid-signature", applied[0], d.D.Message)
					break
				}
			}
		}
	}
	// the command's error text lists no diagnostic twice
	if len(errorCodes(fd)) > 0 {
		bin, err := lab.BuildCLI("")
		if err == nil {
			cli := lab.RunCLI(bin, dir, 120*time.Second, nil, "generate", "spec-and-routes", "-c", "./gleece.config.json")
			rec.AddExtraInt("cli_runs", 1)
			if !cli.TimedOut {
				// the message is logged by several layers; look at one copy: the text after the last "Entities with diagnostics"
				out := cli.Output()
				if i := strings.LastIndex(out, "Entities with diagnostics:"); i >= 0 {
					seen := map[string]bool{}
					for _, l := range cliDiagLine.FindAllString(out[i:], -1) {
						if seen[l] {
							add("error-text-repeats-diagnostic", "the command's error text lists this diagnostic more than once: %s", strings.TrimSpace(l))
							break
						}
						seen[l] = true
					}
				}
			}
		}
	}
	return viols
}

func keysOf(m map[string]bool) []string { return sortedKeys(m) }

// c16SliceRunes: [startCol,endCol) of one line, trying rune columns first and byte columns second
// (the statement fixes no unit; only a range that fits neither is wrong).
func c16SliceRunes(lines []string, sl, sc, el, ec int) (string, bool) {
	if sl != el || sl < 0 || sl >= len(lines) {
		return "<multi-line>", false
	}
	rs := []rune(lines[sl])
	if sc >= 0 && ec <= len(rs) && sc <= ec {
		return string(rs[sc:ec]), true
	}
	b := lines[sl]
	if sc >= 0 && ec <= len(b) && sc <= ec && utf8.ValidString(b[sc:ec]) {
		return b[sc:ec], true
	}
	return "<out of line>", false
}

func c18Gen(t *rapid.T) lkModel {
	m := lkGen(t)
	// C18 is about diagnostics: make sure most cases carry at least one perturbation
	if len(m.Perts) == 0 && rapid.IntRange(0, 3).Draw(t, "forcePert") > 0 {
		m.Perts = append(m.Perts, lkPert{Kind: rapid.SampledFrom(lkPertKinds).Draw(t, "pert"), A: rapid.IntRange(0, 99).Draw(t, "a"), B: rapid.IntRange(0, 99).Draw(t, "b")})
	}
	return m
}

func c18Classify(m lkModel) harness.Class {
	ctrls, applied := lkApply(m)
	c := harness.Class{}
	if len(applied) == 0 {
		return c
	}
	tc := ctrls[m.Target[0]]
	tr := tc.Routes[m.Target[1]]
	notFirst := m.Target[0] > 0 || m.Target[1] > 0
	if notFirst {
		c.Labels = append(c.Labels, "offending-route-not-first-in-file")
	}
	if tr.Noise > 0 {
		c.Labels = append(c.Labels, "multibyte-text-before-offending-token")
	}
	if tr.File != tc.File {
		c.Labels = append(c.Labels, "method-in-another-file")
	}
	if tc.Group {
		c.Labels = append(c.Labels, "controller-in-type-group")
	}
	c.Labels = append(c.Labels, "perturbed")
	c.NonTrivial = notFirst || tr.Noise > 0
	return c
}

func TestC18(t *testing.T) {
	harness.Run(t, harness.Prop[lkModel]{
		ID:       "C18",
		Gen:      c18Gen,
		Sweep:    lkSweep,
		Check:    c18Check,
		Classify: c18Classify,
		Canon:    func(m lkModel) string { return jsonStr(m) },
		Sample: func(m lkModel) any {
			ctrls, applied := lkApply(m)
			return map[string]any{"perturbations": applied, "project": strings.Split(strings.TrimSpace(lkDescribe(ctrls)), "\n")}
		},
		Rule: "the perturbation generator of C10 (21 perturbation kinds on well-formed routes) with layout noise: free-text lines with multibyte characters before the annotations, multibyte " +
			"descriptions on every annotation line, unrelated declarations and blank lines before controllers, controllers inside type(...) groups, several controllers and files, methods in a file " +
			"other than their controller's. The renderer records the line span of every comment block and declaration. Oracle per diagnostic returned by Validate(): file = the file holding the " +
			"entity; start <= end; range inside the file and inside the entity's comment block or declaration; for value-anchored codes the text under the range (rune or byte columns) is one of " +
			"the route's annotation values / {params}; for single perturbations the code expected for the violated rule is present with error severity and the return-signature code is not used " +
			"for unrelated rules; no two diagnostics are Equal; the CLI's error text lists no diagnostic line twice. Non-trivial = offending route is not the first of its file or multibyte free " +
			"text precedes the annotations; distinct = canonical JSON.",
		Assume: []string{"columns are accepted under either unit (runes or bytes)", "expected codes are checked for single perturbations only (a second perturbation may mask the first)"},
		Floors: map[string]float64{"nontrivial": 0.4, "has-diagnostics": 0.4},
	})
}
