package static

import (
	"fmt"
	"os"
	"path/filepath"
	"sort"
	"strings"
	"testing"
	"time"

	"github.com/gopher-fleece/gleece/v2/core/validators/diagnostics"

	"verif/internal/ev"
	"verif/internal/harness"
	"verif/internal/lab"
	"verif/internal/projgen"
)

// C10 — validation accepts exactly the well-linked routes, else blocks all output.

type flatDiag struct {
	Entity string
	Kind   string
	D      diagnostics.ResolvedDiagnostic
}

func flattenDiags(ds []diagnostics.EntityDiagnostic) []flatDiag {
	var out []flatDiag
	var walk func(e *diagnostics.EntityDiagnostic)
	walk = func(e *diagnostics.EntityDiagnostic) {
		for _, d := range e.Diagnostics {
			out = append(out, flatDiag{Entity: e.EntityName, Kind: e.EntityKind, D: d})
		}
		for _, c := range e.Children {
			if c != nil {
				walk(c)
			}
		}
	}
	for i := range ds {
		walk(&ds[i])
	}
	return out
}

func errorCodes(fd []flatDiag) []string {
	seen := map[string]bool{}
	var out []string
	for _, d := range fd {
		if d.D.Severity == diagnostics.DiagnosticError && !seen[d.D.Code] {
			seen[d.D.Code] = true
			out = append(out, d.D.Code)
		}
	}
	sort.Strings(out)
	return out
}

// lkCulprits: which applied perturbation kinds break a rule on their own.
func lkCulprits(m lkModel) []string {
	seen := map[string]bool{}
	var out []string
	for _, p := range m.Perts {
		single := m
		single.Perts = []lkPert{p}
		ctrls, applied := lkApply(single)
		if len(applied) == 0 {
			continue
		}
		broke := false
		for _, c := range ctrls {
			for _, r := range c.Routes {
				if len(lkWellLinked(c.Prefix, r)) > 0 {
					broke = true
				}
			}
		}
		kind := strings.SplitN(applied[0], ":", 2)[0]
		if p.Kind == "retype" || p.Kind == "results" || p.Kind == "verb" {
			kind = applied[0] // the variant matters for these
			if i := strings.Index(kind, "("); i > 0 && p.Kind == "retype" {
				// retype:Query(q0:map[string]string) -> retype:Query:map[string]string
				inner := strings.TrimSuffix(kind[i+1:], ")")
				if j := strings.Index(inner, ":"); j >= 0 {
					kind = kind[:i] + ":" + inner[j+1:]
				}
			}
		}
		if broke && !seen[kind] {
			seen[kind] = true
			out = append(out, kind)
		}
	}
	sort.Strings(out)
	return out
}

func appliedKinds(applied []string) []string {
	seen := map[string]bool{}
	var out []string
	for _, a := range applied {
		k := strings.SplitN(a, ":", 2)[0]
		if !seen[k] {
			seen[k] = true
			out = append(out, k)
		}
	}
	sort.Strings(out)
	return out
}

func c10Check(m lkModel, rec *ev.Recorder) []harness.Viol {
	ctrls, applied := lkApply(m)
	p := lkProject(ctrls, m.Noise)
	brokenAll := map[string]bool{}
	for _, c := range ctrls {
		for _, r := range c.Routes {
			for _, b := range lkWellLinked(c.Prefix, r) {
				brokenAll[b] = true
			}
		}
	}
	expectOK := len(brokenAll) == 0
	dir, err := lab.Scratch("c10-")
	if err != nil {
		rec.Inconclusive(err.Error())
		return nil
	}
	defer os.RemoveAll(dir)
	if _, err := p.WriteTo(dir, projgen.RenderOptions{}, lab.RepoRoot); err != nil {
		rec.Inconclusive(err.Error())
		return nil
	}
	res := lab.RunInProcess(dir, lab.Want{Diags: true, Versions: bothVersions, Engines: []string{"gin"}})
	// a crash while emitting means validation had already let the project through: that is an acceptance
	// decision (and, for a well-linked project, a failure to generate); crashes before that belong to C14 alone
	emitCrash := res.Panic != "" && (strings.HasPrefix(res.PanicStage, "spec-") || strings.HasPrefix(res.PanicStage, "routes-"))
	if res.Panic != "" && !emitCrash {
		rec.Label("gleece-panicked (reported under C14)", 1)
		return nil
	}
	fd := flattenDiags(res.Diags)
	codes := errorCodes(fd)
	accepted := (res.Accepted() || (emitCrash && res.ConfigErr == nil && res.RunErr == nil)) && len(codes) == 0
	// "never rejected" is about the command: a well-linked project must also get its spec and routes
	generationFailure := ""
	if accepted {
		for _, v := range bothVersions {
			if res.SpecErr[v] != nil {
				generationFailure = "spec-" + v + "-failed"
				rec.SetExtra("last_generation_failure", fmtErr(res.SpecErr[v]))
			}
		}
		if res.RoutesErr["gin"] != nil {
			generationFailure = "routes-failed"
		}
		if emitCrash {
			generationFailure = res.PanicStage + "-crashed"
			rec.SetExtra("last_generation_failure", firstLine(res.Panic))
		}
	}
	var viols []harness.Viol
	desc := fmt.Sprintf("perturbations=%v\n%s", applied, lkDescribe(ctrls))
	var rules []string
	for b := range brokenAll {
		rules = append(rules, b)
	}
	sort.Strings(rules)
	switch {
	case expectOK && accepted && generationFailure != "":
		viols = append(viols, harness.Viol{Signature: fmt.Sprintf("C10:spurious-reject:via=%s:%s", strings.Join(appliedKinds(applied), "+"), generationFailure),
			Message: fmt.Sprintf("every route satisfies the link rules and validation passes, but generation fails (%s): %s\n%s", generationFailure, fmtErr(firstErr(res))+firstLine(res.Panic), desc)})
	case expectOK && accepted:
		rec.Label("well-linked-accepted", 1)
	case !expectOK && !accepted:
		rec.Label("ill-linked-rejected", 1)
	case expectOK && !accepted:
		why := "run-error"
		if len(codes) > 0 {
			why = strings.Join(codes, "+")
		}
		viols = append(viols, harness.Viol{Signature: fmt.Sprintf("C10:spurious-reject:via=%s:%s", strings.Join(appliedKinds(applied), "+"), why),
			Message: fmt.Sprintf("every route satisfies the link rules but the project is rejected (%s; run error: %s)\n%s", why, fmtErr(res.RunErr), desc)})
	default:
		viols = append(viols, harness.Viol{Signature: fmt.Sprintf("C10:unsound-accept:%s:via=%s", strings.Join(rules, "+"), strings.Join(lkCulprits(m), "+")),
			Message: fmt.Sprintf("a route breaks %v but the project is accepted without any error diagnostic\n%s", rules, desc)})
	}
	// whenever gleece rejects, the real command must fail and write neither routes nor spec
	if !accepted {
		bin, err := lab.BuildCLI("")
		if err != nil {
			rec.Inconclusive(err.Error())
			return viols
		}
		cli := lab.RunCLI(bin, dir, 120*time.Second, nil, "generate", "spec-and-routes", "-c", "./gleece.config.json")
		rec.AddExtraInt("cli_runs", 1)
		if cli.TimedOut {
			rec.Inconclusive("CLI run exceeded the harness time limit")
			return viols
		}
		_, routesErr := os.Stat(filepath.Join(dir, p.Config.RoutesOut))
		_, specErr := os.Stat(filepath.Join(dir, p.Config.SpecOut))
		if cli.Exit == 0 {
			viols = append(viols, harness.Viol{Signature: "C10:rejected-in-process-but-cli-succeeds", Message: "validation reported errors yet `generate spec-and-routes` exited 0\n" + desc})
		}
		if routesErr == nil || specErr == nil {
			viols = append(viols, harness.Viol{Signature: "C10:output-written-despite-error-diagnostics",
				Message: fmt.Sprintf("error diagnostics %v exist, yet output was written (routes file exists=%v, spec exists=%v)\n%s", codes, routesErr == nil, specErr == nil, desc)})
		}
	}
	return viols
}

func firstErr(res *lab.Result) error {
	for _, v := range bothVersions {
		if res.SpecErr[v] != nil {
			return res.SpecErr[v]
		}
	}
	return res.RoutesErr["gin"]
}

func c10Classify(m lkModel) harness.Class {
	ctrls, applied := lkApply(m)
	broken := false
	for _, c := range ctrls {
		for _, r := range c.Routes {
			if len(lkWellLinked(c.Prefix, r)) > 0 {
				broken = true
			}
		}
	}
	c := harness.Class{}
	if len(applied) == 0 {
		c.Labels = append(c.Labels, "unperturbed")
	}
	if broken {
		c.Labels = append(c.Labels, "perturbation-breaks-a-rule")
	} else if len(applied) > 0 {
		c.Labels = append(c.Labels, "neutral-perturbation")
	}
	if len(applied) >= 2 {
		c.Labels = append(c.Labels, "double-perturbation")
		// interaction: do the two together differ from what each does alone?
		if len(lkCulprits(m)) < 2 && broken {
			c.Labels = append(c.Labels, "interacting-perturbations")
		}
	}
	c.NonTrivial = broken || len(applied) >= 2
	return c
}

func TestC10(t *testing.T) {
	harness.Run(t, harness.Prop[lkModel]{
		ID:       "C10",
		Gen:      lkGen,
		Sweep:    lkSweep,
		Check:    c10Check,
		Classify: c10Classify,
		Canon:    func(m lkModel) string { return jsonStr(m) },
		Sample: func(m lkModel) any {
			ctrls, applied := lkApply(m)
			return map[string]any{"perturbations": applied, "project": strings.Split(strings.TrimSpace(lkDescribe(ctrls)), "\n")}
		},
		Rule: "rapid draws 1-2 controllers with 1-3 well-formed routes each (0-2 URL parameters bound by name or alias; query/header parameters over primitives, an enum, a primitive alias, pointers, " +
			"query slices; JSON body or form fields; context parameters; results error | (T, error) | custom error by value/pointer; annotation order permuted; free text with multibyte characters; " +
			"methods in a second file; controllers inside type(...) groups), then applies 0, 1 or 2 perturbations from a catalogue of 21 (drop/duplicate/rename/retarget an annotation, stray " +
			"annotation, unknown or duplicate @Path alias, repeated or unbound {name}, {name} only in the controller prefix, alias-less @Path outside the template, unreferenced Go parameter, two " +
			"bodies, body+form, retype to struct/map/error/slice, primitive body, result shapes (), (T), (T,U,error), (T,notError), unsupported/invalid verbs, neutral changes, a @Security value " +
			"colliding with a parameter name). Oracle: an independent WellLinked predicate (the six rules of the statement) evaluated on the perturbed model must equal `no error diagnostic and Run() " +
			"succeeds`; both directions are reported (unsound-accept / spurious-reject); after every rejection the real CLI must exit non-zero and write neither routes nor spec. " +
			"Non-trivial = a perturbation changes WellLinked or two perturbations are combined; distinct = canonical JSON.",
		Assume: []string{"a bare primitive/special body is treated as ill-formed (explicit coded rule `receiver-invalid-body`; the only narrowing of the converse, see DESIGN.md C10)"},
		Floors: map[string]float64{"nontrivial": 0.5, "perturbation-breaks-a-rule": 0.3},
	})
}

func firstLine(s string) string {
	if i := strings.IndexByte(s, '\n'); i >= 0 {
		return s[:i]
	}
	return s
}
