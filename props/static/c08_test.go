package static

import (
	"fmt"
	"os"
	"path/filepath"
	"reflect"
	"strings"
	"testing"
	"time"

	"pgregory.net/rapid"

	"verif/internal/ev"
	"verif/internal/harness"
	"verif/internal/lab"
	"verif/internal/oas"
	"verif/internal/projgen"
)

// C08 — whenever a spec is emitted it is a valid, closed OpenAPI document; otherwise the
// command fails instead of writing one.

var c08Profile = func() projgen.Profile {
	pf := projgen.FullProfile
	pf.MaxControllers, pf.MaxMethods = 2, 4
	pf.PrefixParams, pf.DupWire, pf.PtrPathParams = true, true, true
	pf.VarySchemes, pf.UndeclaredScheme = true, true
	return pf
}()

func c08CheckDoc(p *projgen.Project, b []byte, v string, add func(sig, format string, a ...any)) {
	doc, err := oas.Parse(b)
	if err != nil {
		add("not-json:"+v, "%v", err)
		return
	}
	if doc["openapi"] != v {
		add("declared-version:"+v, "document declares openapi %v", doc["openapi"])
	}
	seen := map[string]bool{}
	for _, pr := range doc.Validate() {
		if seen[pr.Class] {
			continue
		}
		seen[pr.Class] = true
		add(pr.Class+":"+v, "%s\n%s%s", pr.String(), typesDescribe(p), p.Describe())
	}
	info := asMap(doc["info"])
	if info["title"] != p.Config.Title || info["version"] != p.Config.Version {
		add("info-differs-from-config:"+v, "info=%s, configuration has title %q version %q", jsonStr(info), p.Config.Title, p.Config.Version)
	}
	servers := asSlice(doc["servers"])
	if len(servers) != 1 || asMap(servers[0])["url"] != p.Config.BaseURL {
		add("servers-differ-from-config:"+v, "servers=%s, configuration has baseUrl %q", jsonStr(servers), p.Config.BaseURL)
	}
	want := map[string]any{}
	for _, s := range p.Config.Schemes {
		want[s.Name] = expectedSchemeDoc(s)
	}
	got := asMap(asMap(doc["components"])["securitySchemes"])
	if (len(want) > 0 || len(got) > 0) && !reflect.DeepEqual(normaliseJSON(got), normaliseJSON(want)) {
		add("security-schemes-differ-from-config:"+v, "components.securitySchemes=%s, configuration has %s", jsonStr(got), jsonStr(want))
	}
}

func c08Check(p *projgen.Project, rec *ev.Recorder) []harness.Viol {
	dir, err := lab.Scratch("c08-")
	if err != nil {
		rec.Inconclusive(err.Error())
		return nil
	}
	defer os.RemoveAll(dir)
	if _, err := p.WriteTo(dir, projgen.RenderOptions{}, lab.RepoRoot); err != nil {
		rec.Inconclusive(err.Error())
		return nil
	}
	var viols []harness.Viol
	add := func(sig, format string, a ...any) {
		viols = append(viols, harness.Viol{Signature: "C08:" + sig, Message: fmt.Sprintf(format, a...)})
	}
	res := lab.RunInProcess(dir, lab.Want{Versions: bothVersions})
	if res.Panic != "" {
		rec.Label("gleece-panicked (reported under C14)", 1)
		return nil
	}
	emitted := 0
	for _, v := range bothVersions {
		if b, ok := res.Spec[v]; ok {
			emitted++
			rec.Label("document-emitted", 1)
			c08CheckDoc(p, b, v, add)
		}
	}
	if emitted == 0 {
		rec.Label("no-document (rejection)", 1)
	}
	// the real command: a failing run must not leave a file at specGeneratorConfig.outputPath
	bin, err := lab.BuildCLI("")
	if err != nil {
		rec.Inconclusive(err.Error())
		return viols
	}
	// In every other project the output path already holds an older, much longer document (a regeneration after the
	// API shrank): what the command leaves there must still be exactly the new document.
	specPath := filepath.Join(dir, p.Config.SpecOut)
	stale := ev.Hash(projectCanon(p))%2 == 0
	staleDoc := []byte(`{"openapi":"3.0.0","x-stale":"` + strings.Repeat("older document ", 20000) + `"}`)
	if stale {
		_ = os.MkdirAll(filepath.Dir(specPath), 0o755)
		if err := os.WriteFile(specPath, staleDoc, 0o644); err != nil {
			rec.Inconclusive(err.Error())
			return viols
		}
		rec.Label("cli-run-over-existing-longer-file", 1)
	}
	cli := lab.RunCLI(bin, dir, 120*time.Second, nil, "generate", "spec", "-c", "./gleece.config.json")
	if cli.TimedOut {
		rec.Inconclusive("CLI run exceeded the harness time limit")
		return viols
	}
	b, statErr := os.ReadFile(specPath)
	switch {
	case cli.Exit != 0 && stale:
		// the older document may stay or go; a half-written mixture may not
		if statErr == nil && string(b) != string(staleDoc) {
			if _, perr := parseSpec(b); perr != nil {
				add("failed-command-left-malformed-file", "`gleece generate spec` exited %d and left %d bytes at %s that are neither the previous document nor JSON", cli.Exit, len(b), p.Config.SpecOut)
			}
		}
		rec.Label("cli-rejected", 1)
	case cli.Exit != 0 && statErr == nil:
		add("failed-command-wrote-spec", "`gleece generate spec` exited %d but %s exists (%d bytes)", cli.Exit, p.Config.SpecOut, len(b))
	case cli.Exit == 0 && statErr != nil:
		add("successful-command-wrote-no-spec", "`gleece generate spec` exited 0 but %s is missing", p.Config.SpecOut)
	case cli.Exit == 0:
		rec.Label("cli-spec-file-validated", 1)
		c08CheckDoc(p, b, p.Config.OpenAPI, add)
		if in, ok := res.Spec[p.Config.OpenAPI]; ok && string(in) != string(b) {
			rec.Inconclusive("harness assumption broken: in-process spec differs from the CLI's spec file")
		}
	default:
		rec.Label("cli-rejected", 1)
	}
	return viols
}

func c08Classify(p *projgen.Project) harness.Class {
	c := harness.Class{}
	reach := p.Reachable()
	depth2, enum, pathParam := false, false, false
	for _, d := range reach {
		if d.Kind == "enum" {
			enum = true
		}
		for _, f := range d.Fields {
			if f.Type.Base().Kind == "named" {
				depth2 = true
			}
		}
	}
	for _, ctl := range p.Controllers {
		for _, m := range ctl.RealMethods() {
			for _, prm := range m.Params {
				if prm.In == "path" {
					pathParam = true
				}
			}
		}
	}
	if depth2 {
		c.Labels = append(c.Labels, "ref-chain-depth>=2")
	}
	if enum {
		c.Labels = append(c.Labels, "has-enum")
	}
	if pathParam {
		c.Labels = append(c.Labels, "has-path-parameter")
	}
	c.NonTrivial = depth2 && enum && pathParam
	return c
}

func TestC08(t *testing.T) {
	harness.Run(t, harness.Prop[*projgen.Project]{
		ID:       "C08",
		Gen:      func(t *rapid.T) *projgen.Project { return projgen.GenProject(t, c08Profile) },
		Check:    c08Check,
		Classify: c08Classify,
		Canon:    projectCanon,
		Sample:   projectSample,
		Rule: "rapid draws projects from the full profile plus shapes aimed at closure: controller prefixes carrying {params} bound by every method, path parameters declared as pointers, two query " +
			"parameters sharing a wire name, types reachable only through maps/slices/pointers, aliases and enums from other packages, varied scheme catalogues and undeclared schemes (so that " +
			"rejections occur). Both documents are produced in-process and the configured one by the real CLI. Oracle = independent validity predicate (internal/oas, plain encoding/json): every " +
			"$ref resolves; {names} in each template <-> required path parameters (bijection); (name,in) unique; every response has a description; enum members have the declared JSON type; " +
			"unique non-empty operationIds; info/servers/securitySchemes equal the configuration; and a failing `generate spec` leaves no file at the output path. " +
			"Non-trivial = document with a $ref chain of depth >=2, a path parameter and an enum, or a rejected run; distinct = canonical JSON of the model.",
		Assume: []string{"the in-process spec bytes equal the CLI's file (checked on every accepted case; a mismatch is reported as a harness fault)"},
		Floors: map[string]float64{"document-emitted": 0.5},
	})
}

// ---- second part: documents emitted for perturbed projects ---------------------------------

// c08LinkageCheck runs the linkage lab's projects (well-formed routes plus catalogue perturbations). Most perturbed
// projects are rejected; whenever gleece emits a document all the same, it has to be a valid, closed one.
func c08LinkageCheck(m lkModel, rec *ev.Recorder) []harness.Viol {
	ctrls, applied := lkApply(m)
	p := lkProject(ctrls, m.Noise)
	res, _, err := runProject(p, lab.Want{Versions: bothVersions})
	if err != nil {
		rec.Inconclusive("scratch project: " + err.Error())
		return nil
	}
	if res.Panic != "" {
		rec.Label("gleece-panicked (reported under C14)", 1)
		return nil
	}
	var viols []harness.Viol
	seen := map[string]bool{}
	add := func(sig, format string, a ...any) {
		if !seen[sig] {
			seen[sig] = true
			viols = append(viols, harness.Viol{Signature: "C08:" + sig, Message: fmt.Sprintf(format, a...) + fmt.Sprintf("\nperturbations=%v\n%s", applied, lkDescribe(ctrls))})
		}
	}
	emitted := 0
	for _, v := range bothVersions {
		if b, ok := res.Spec[v]; ok && res.Accepted() {
			emitted++
			c08CheckDoc(p, b, v, add)
		}
	}
	if emitted > 0 {
		rec.Label("document-emitted", 1)
		if len(applied) > 0 {
			rec.Label("document-emitted-for-perturbed-project", 1)
		}
	} else {
		rec.Label("no-document (rejection)", 1)
	}
	return viols
}

func TestC08Linkage(t *testing.T) {
	harness.Run(t, harness.Prop[lkModel]{
		ID:    "C08",
		Gen:   lkGen,
		Sweep: lkSweep,
		Check: c08LinkageCheck,
		Classify: func(m lkModel) harness.Class {
			_, applied := lkApply(m)
			return harness.Class{NonTrivial: len(applied) > 0}
		},
		Canon: func(m lkModel) string { return jsonStr(m) },
		Sample: func(m lkModel) any {
			ctrls, applied := lkApply(m)
			return map[string]any{"perturbations": applied, "project": strings.Split(strings.TrimSpace(lkDescribe(ctrls)), "\n")}
		},
		Rule: "the linkage lab's generator (see C10): well-formed routes plus 0-2 perturbations from the catalogue, preceded by the catalogue sweep. Oracle: whenever a document is emitted for such a " +
			"project, the validity predicate of the main part holds for it. Non-trivial = at least one perturbation applied; distinct = hash of the model.",
		Assume: []string{"this part does not judge acceptance (C10 does); it only reads what was emitted"},
		Floors: map[string]float64{"document-emitted": 0.2},
	})
}
