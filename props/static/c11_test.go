package static

import (
	"fmt"
	"strings"
	"testing"

	"pgregory.net/rapid"

	"verif/internal/ev"
	"verif/internal/harness"
	"verif/internal/lab"
	"verif/internal/oas"
	"verif/internal/projgen"
)

// C11 — the 3.0 and 3.1 documents describe the same API.

var c11Profile = func() projgen.Profile {
	pf := projgen.FullProfile
	pf.Decoys = false
	pf.MaxControllers, pf.MaxMethods = 2, 4
	pf.RichValidators = true
	return pf
}()

func c11Check(p *projgen.Project, rec *ev.Recorder) []harness.Viol {
	res, _, err := runProject(p, lab.Want{Versions: bothVersions})
	if err != nil {
		rec.Inconclusive("scratch project: " + err.Error())
		return nil
	}
	if res.Panic != "" {
		rec.Label("gleece-panicked (reported under C14)", 1)
		return nil
	}
	if !res.Accepted() {
		rec.Label("rejected", 1)
		rec.SetExtra("last_rejection", fmtErr(res.RunErr)+fmtErr(res.ConfigErr))
		return nil
	}
	rec.Label("accepted", 1)
	e30, e31 := res.SpecErr["3.0.0"], res.SpecErr["3.1.0"]
	if e30 != nil && e31 != nil {
		rec.Label("no-spec-in-either-version", 1)
		return nil
	}
	if (e30 == nil) != (e31 == nil) {
		// the 3.1 path always validates through 3.0 first, so only "3.1 fails alone" can happen
		sig := "C11:one-version-fails-alone"
		if e31 != nil && strings.Contains(e31.Error(), "infinite circular reference detected") {
			// libopenapi refuses a schema that requires a reference back to itself; kin-openapi does not look
			sig += ":3.1.0:required-self-reference"
		}
		return []harness.Viol{{Signature: sig, Message: fmt.Sprintf("3.0.0: %s; 3.1.0: %s\n%s", fmtErr(e30), fmtErr(e31), p.Describe())}}
	}
	d30, err := oas.Parse(res.Spec["3.0.0"])
	if err != nil {
		return []harness.Viol{{Signature: "C11:spec-not-json:3.0.0", Message: err.Error()}}
	}
	d31, err := oas.Parse(res.Spec["3.1.0"])
	if err != nil {
		return []harness.Viol{{Signature: "C11:spec-not-json:3.1.0", Message: err.Error()}}
	}
	var viols []harness.Viol
	seen := map[string]bool{}
	prefix := "C11:differs:"
	if c11HasConflictingRules(p) {
		// only hand-written witnesses reach here: the main profile never combines two rules that write one keyword
		prefix = "C11:conflicting-rules-resolved-differently:"
	}
	for _, df := range oas.Diff(d30.Normalise(), d31.Normalise()) {
		sig := "C11:differs:" + df.Class
		switch df.Class {
		case "minimum", "maximum", "exclusiveMinimum", "exclusiveMaximum", "minLength", "maxLength", "minItems", "maxItems", "enum", "format":
			sig = prefix + df.Class
		}
		if seen[sig] {
			continue // one report per class and case
		}
		seen[sig] = true
		viols = append(viols, harness.Viol{Signature: sig, Message: df.String() + "\n" + typesDescribe(p) + p.Describe()})
	}
	return viols
}

func c11HasConflictingRules(p *projgen.Project) bool {
	for _, t := range p.Types {
		for _, f := range t.Fields {
			if projgen.ConflictingRules(f.Validate) {
				return true
			}
		}
	}
	for _, c := range p.Controllers {
		for _, m := range c.Methods {
			for _, prm := range m.Params {
				if projgen.ConflictingRules(prm.Validator) {
					return true
				}
			}
		}
	}
	return false
}

func c11Classify(p *projgen.Project) harness.Class {
	rules := map[string]bool{}
	bases := map[string]bool{}
	refUse := false
	note := func(v string, t projgen.TypeRef) {
		if v == "" {
			return
		}
		for _, r := range strings.Split(v, ",") {
			rules[strings.SplitN(r, "=", 2)[0]] = true
		}
		b := t.Base()
		bases[b.Kind+":"+b.Name] = true
		if b.Kind == "named" {
			refUse = true
		}
	}
	for _, t := range p.Reachable() {
		for _, f := range t.Fields {
			note(f.Validate, f.Type)
			if f.Type.Base().Kind == "named" {
				refUse = true
			}
		}
	}
	for _, c := range p.Controllers {
		for _, m := range c.RealMethods() {
			for _, prm := range m.Params {
				note(prm.Validator, prm.Type)
			}
		}
	}
	c := harness.Class{}
	if len(rules) >= 3 {
		c.Labels = append(c.Labels, "validator-rules>=3")
	}
	if len(bases) >= 2 {
		c.Labels = append(c.Labels, "validated-base-types>=2")
	}
	if refUse {
		c.Labels = append(c.Labels, "ref-typed-use")
	}
	c.NonTrivial = len(rules) >= 3 && len(bases) >= 2 && refUse
	return c
}

func TestC11(t *testing.T) {
	harness.Run(t, harness.Prop[*projgen.Project]{
		ID:       "C11",
		Gen:      func(t *rapid.T) *projgen.Project { return projgen.GenProject(t, c11Profile) },
		Check:    c11Check,
		Classify: c11Classify,
		Canon:    projectCanon,
		Sample:   projectSample,
		Rule: "rapid draws projects from the C06/C07 generators with validator tags from the vocabulary both converters know (email uuid ip ipv4 ipv6 hostname date datetime gt gte lt lte min max len " +
			"pattern minItems maxItems uniqueItems enum oneof required, with parsable arguments) on fields and parameters of every base type, x security/description/deprecation options. Both documents " +
			"are produced from ONE analysis; an independent reader (internal/oas) extracts paths, verbs, operationIds, tags, parameters (name/in/required/schema), request bodies, response code sets with " +
			"their schemas, security and component schemas (type, format, properties, required, enum value SET, allOf, bounds), translates dialect (3.0 exclusiveMinimum:true+minimum:n <=> 3.1 " +
			"exclusiveMinimum:n, false/empty <=> absent, enum members by value after coercion, nullable) and requires structural equality; each difference is reported with its pointer and class. " +
			"Non-trivial = >=3 distinct validator rules on >=2 base types and a $ref-typed use; distinct = canonical JSON of the model.",
		Assume: []string{"descriptions, titles, summaries and examples are outside the statement's list and not compared", "the dialect table is the one in internal/oas/diff.go"},
		Floors: map[string]float64{"nontrivial": 0.2, "accepted": 0.9},
	})
}
