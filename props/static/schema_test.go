package static

import (
	"fmt"
	"sort"
	"strings"

	"verif/internal/projgen"
)

// schemaMismatch compares an emitted schema with the OpenAPI meaning of a Go type
// (hand-written table, not copied from gleece). Validation keywords, descriptions,
// deprecation and nullability are ignored here.
func schemaMismatch(got map[string]any, want projgen.TypeRef) string {
	if got == nil {
		return "schema is missing"
	}
	ref, _ := got["$ref"].(string)
	typ := schemaType(got)
	switch want.Kind {
	case "ptr":
		return schemaMismatch(got, *want.Elem)
	case "named":
		if ref != "#/components/schemas/"+want.Name {
			return fmt.Sprintf("want $ref to %s, got %s", want.Name, jsonStr(got))
		}
	case "prim":
		wt := map[string]string{"string": "string", "bool": "boolean", "float32": "number", "float64": "number"}[want.Name]
		if wt == "" {
			wt = "integer"
		}
		if typ != wt || ref != "" {
			return fmt.Sprintf("want type %s for Go %s, got %s", wt, want.Name, jsonStr(got))
		}
	case "time":
		if typ != "string" || got["format"] != "date-time" {
			return fmt.Sprintf("want string/date-time for time.Time, got %s", jsonStr(got))
		}
	case "bytes":
		if typ != "string" {
			return fmt.Sprintf("want a string schema for []byte, got %s", jsonStr(got))
		}
	case "any":
		if ref != "" || (typ != "" && typ != "object") {
			return fmt.Sprintf("want an unconstrained (or object) schema for any, got %s", jsonStr(got))
		}
	case "slice":
		if typ != "array" {
			return fmt.Sprintf("want array, got %s", jsonStr(got))
		}
		items, _ := got["items"].(map[string]any)
		if d := schemaMismatch(items, *want.Elem); d != "" {
			return "items: " + d
		}
	case "map":
		if typ != "object" {
			return fmt.Sprintf("want object with additionalProperties, got %s", jsonStr(got))
		}
		ap, _ := got["additionalProperties"].(map[string]any)
		if d := schemaMismatch(ap, *want.Elem); d != "" {
			return "additionalProperties: " + d
		}
	}
	return ""
}

func schemaType(s map[string]any) string {
	switch t := s["type"].(type) {
	case string:
		return t
	case []any:
		for _, e := range t {
			if x, ok := e.(string); ok && x != "null" {
				return x
			}
		}
	}
	return ""
}

func asMap(v any) map[string]any {
	m, _ := v.(map[string]any)
	return m
}

func asSlice(v any) []any {
	a, _ := v.([]any)
	return a
}

func stringSet(v any) []string {
	var out []string
	for _, e := range asSlice(v) {
		out = append(out, fmt.Sprint(e))
	}
	sort.Strings(out)
	return out
}

func sameStrings(a, b []string) bool {
	return strings.Join(a, "\x00") == strings.Join(b, "\x00")
}
