package static

import (
	"encoding/json"
	"fmt"
	"os"
	"sort"
	"strings"
	"testing"

	"github.com/gopher-fleece/gleece/v2/cmd"
	"github.com/gopher-fleece/gleece/v2/common"
	"github.com/gopher-fleece/gleece/v2/core/pipeline"
	"github.com/gopher-fleece/gleece/v2/definitions"
	"github.com/gopher-fleece/gleece/v2/generator/routes"
	"github.com/gopher-fleece/gleece/v2/generator/swagen"
	"pgregory.net/rapid"

	"verif/internal/ev"
	"verif/internal/harness"
	"verif/internal/lab"
	"verif/internal/projgen"
)

// C19 — re-running analysis on an unchanged project is idempotent and cache-transparent.

type c19Model struct {
	Project *projgen.Project `json:"project"`
	History []string         `json:"history"` // graph | validate | intermediate | run
}

var c19Profile = func() projgen.Profile {
	pf := projgen.FullProfile
	pf.Decoys = false
	pf.MaxControllers, pf.MaxMethods = 3, 4
	pf.StrayController = true
	return pf
}()

func c19Gen(t *rapid.T) c19Model {
	m := c19Model{Project: projgen.GenProject(t, c19Profile)}
	n := rapid.IntRange(2, 8).Draw(t, "historyLen")
	m.History = []string{"graph"} // "graph before use" is the only ordering constraint
	if rapid.Bool().Draw(t, "startWithRun") {
		m.History = []string{"run"}
	}
	if rapid.Bool().Draw(t, "editorPattern") {
		// what an editor integration does: analyse, reduce, lint, re-analyse, reduce again
		m.History = append(m.History, rapid.SampledFrom([]string{"intermediate", "run"}).Draw(t, "firstReduce"), "validate", "graph",
			rapid.SampledFrom([]string{"intermediate", "run"}).Draw(t, "secondReduce"))
	}
	for i := len(m.History); i < n; i++ {
		m.History = append(m.History, rapid.SampledFrom([]string{"graph", "graph", "validate", "intermediate", "intermediate", "run"}).Draw(t, "op"))
	}
	return m
}

// canonMeta renders a reduction result canonically; Imports[pkg] is compared as a set (it is built from one).
func canonMeta(m pipeline.GleeceFlattenedMetadata) string {
	imports := map[string][]string{}
	for k, v := range m.Imports {
		c := append([]string(nil), v...)
		sort.Strings(c)
		imports[k] = c
	}
	b, _ := json.Marshal(map[string]any{"imports": imports, "flat": m.Flat, "models": m.Models, "plainError": m.PlainErrorPresent})
	return string(b)
}

var allKinds = []common.SymKind{common.SymKindUnknown, common.SymKindPackage, common.SymKindStruct, common.SymKindController, common.SymKindInterface, common.SymKindAlias,
	common.SymKindComposite, common.SymKindTypeParam, common.SymKindEnum, common.SymKindEnumValue, common.SymKindFunction, common.SymKindReceiver, common.SymKindField,
	common.SymKindParameter, common.SymKindVariable, common.SymKindConstant, common.SymKindReturnType, common.SymKindBuiltin, common.SymKindSpecialBuiltin}

func graphSize(p *pipeline.GleecePipeline) (nodes, edges int) {
	g := p.Graph()
	ns := g.FindByKind(allKinds...)
	for _, n := range ns {
		for _, e := range g.GetEdges(n.Id, nil) {
			if e.Edge.From.BaseId() == n.Id.BaseId() {
				edges++
			}
		}
	}
	return len(ns), edges
}

func firstDiffAt(a, b string) string {
	n := len(a)
	if len(b) < n {
		n = len(b)
	}
	i := 0
	for i < n && a[i] == b[i] {
		i++
	}
	lo := i - 80
	if lo < 0 {
		lo = 0
	}
	hi := func(s string) int {
		if i+120 < len(s) {
			return i + 120
		}
		return len(s)
	}
	return fmt.Sprintf("…%s ⟂ first: %s | other: %s", a[lo:i], a[i:hi(a)], b[i:hi(b)])
}

func artefacts(cfg *definitions.GleeceConfig, meta pipeline.GleeceFlattenedMetadata, tag string) (spec []byte, routesSrc []byte, err error) {
	c := *cfg
	models := meta.Models
	b, _ := json.Marshal(models)
	var mcopy definitions.Models
	_ = json.Unmarshal(b, &mcopy)
	spec, err = swagen.GenerateSpec(&c.OpenAPIGeneratorConfig, meta.Flat, &mcopy, meta.PlainErrorPresent)
	if err != nil {
		return nil, nil, err
	}
	c.RoutesConfig.OutputPath = "./c19out/" + tag + "/gleece.go"
	if err := routes.GenerateRoutes(&c, meta); err != nil {
		return spec, nil, err
	}
	routesSrc, err = os.ReadFile(c.RoutesConfig.OutputPath)
	return spec, routesSrc, err
}

// graphContent renders what the graph holds about declared enums and structs (the payloads analysis results are
// reduced from and that an editor integration reads), canonically.
func graphContent(p *pipeline.GleecePipeline) string {
	g := p.Graph()
	var lines []string
	for _, e := range g.Enums() {
		l := fmt.Sprintf("enum %s.%s %s:", e.PkgPath, e.Name, e.ValueKind)
		for _, v := range e.Values {
			l += fmt.Sprintf(" %s=%v", v.Name, v.Value)
		}
		lines = append(lines, l)
	}
	for _, st := range g.Structs() {
		l := fmt.Sprintf("struct %s.%s:", st.PkgPath, st.Name)
		for _, f := range st.Fields {
			l += fmt.Sprintf(" %s:%s", f.Name, f.Type.Name)
		}
		lines = append(lines, l)
	}
	sort.Strings(lines)
	return strings.Join(lines, "\n")
}

func c19Check(m c19Model, rec *ev.Recorder) (viols []harness.Viol) {
	lab.Quiet()
	dir, err := lab.Scratch("c19-")
	if err != nil {
		rec.Inconclusive(err.Error())
		return nil
	}
	defer os.RemoveAll(dir)
	if _, err := m.Project.WriteTo(dir, projgen.RenderOptions{}, lab.RepoRoot); err != nil {
		rec.Inconclusive(err.Error())
		return nil
	}
	old, _ := os.Getwd()
	if err := os.Chdir(dir); err != nil {
		rec.Inconclusive(err.Error())
		return nil
	}
	defer os.Chdir(old)
	cfg, err := cmd.LoadGleeceConfig("./gleece.config.json")
	if err != nil {
		rec.Label("rejected", 1)
		return nil
	}
	add := func(sig, format string, a ...any) {
		viols = append(viols, harness.Viol{Signature: "C19:" + sig, Message: fmt.Sprintf(format, a...) + fmt.Sprintf("\nhistory=%v\n%s", m.History, m.Project.Describe())})
	}
	// the reference: a brand-new session
	fresh, err := pipeline.NewGleecePipeline(cfg)
	if err != nil {
		rec.Label("rejected", 1)
		return nil
	}
	freshMeta, err := fresh.Run()
	if err != nil {
		rec.Label("rejected", 1)
		rec.SetExtra("last_rejection", fmtErr(err))
		return nil
	}
	rec.Label("accepted", 1)
	freshCanon := canonMeta(freshMeta)
	freshSpec, freshRoutes, freshErr := artefacts(cfg, freshMeta, "fresh")

	// the long-lived session
	session, err := pipeline.NewGleecePipeline(cfg)
	if err != nil {
		add("new-pipeline-fails-second-time", "%v", err)
		return
	}
	firstCanon, firstDiags := "", ""
	nodes0, edges0 := -1, -1
	content0 := ""
	reductions := 0
	var lastMeta *pipeline.GleeceFlattenedMetadata
	for step, op := range m.History {
		switch op {
		case "graph":
			if err := session.GenerateGraph(); err != nil {
				add("generate-graph-fails-on-repeat", "step %d: %v", step, err)
				return
			}
		case "validate":
			ds, err := session.Validate()
			if err != nil {
				add("validate-fails-on-repeat", "step %d: %v", step, err)
				return
			}
			b, _ := json.Marshal(flattenDiags(ds))
			if firstDiags == "" {
				firstDiags = string(b)
			} else if string(b) != firstDiags {
				add("diagnostics-change-on-repeat", "step %d: Validate() returns different diagnostics than the first time: %s", step, firstDiffAt(firstDiags, string(b)))
			}
		case "intermediate", "run":
			var meta pipeline.GleeceFlattenedMetadata
			var err error
			if op == "run" {
				meta, err = session.Run()
			} else {
				meta, err = session.GenerateIntermediate()
			}
			if err != nil {
				add(op+"-fails-on-repeat", "step %d: %v", step, err)
				return
			}
			reductions++
			c := canonMeta(meta)
			if firstCanon == "" {
				firstCanon = c
			} else if c != firstCanon {
				add("result-differs-from-first-of-session", "step %d (%s): %s", step, op, firstDiffAt(firstCanon, c))
			}
			if c != freshCanon {
				add("result-differs-from-fresh-session", "step %d (%s): %s", step, op, firstDiffAt(freshCanon, c))
			}
			mm := meta
			lastMeta = &mm
		}
		n, e := graphSize(&session)
		if gc := graphContent(&session); content0 == "" {
			content0 = gc
		} else if gc != content0 {
			add("graph-content-changes", "after step %d (%s) the graph's enum/struct payloads differ from those after the first step: %s", step, op, firstDiffAt(content0, gc))
			return
		}
		if nodes0 < 0 {
			nodes0, edges0 = n, e
		} else if n != nodes0 || e != edges0 {
			add("graph-grows", "after step %d (%s) the graph has %d nodes / %d edges, after the first step it had %d / %d", step, op, n, e, nodes0, edges0)
			return
		}
	}
	if fc := graphContent(&fresh); content0 != "" && fc != content0 {
		add("graph-content-differs-from-fresh-session", "%s", firstDiffAt(fc, content0))
	}
	fn, fe := graphSize(&fresh)
	if nodes0 >= 0 && (fn != nodes0 || fe != edges0) {
		add("graph-differs-from-fresh-session", "session graph has %d nodes / %d edges, a fresh session %d / %d", nodes0, edges0, fn, fe)
	}
	// artefacts generated from the last result equal those of the fresh session
	if lastMeta != nil && freshErr == nil {
		spec, routesSrc, err := artefacts(cfg, *lastMeta, "session")
		switch {
		case err != nil:
			add("artefacts-fail-from-cached-result", "%v", err)
		case string(spec) != string(freshSpec):
			add("spec-differs-from-fresh-session", "%s", firstDiffAt(string(freshSpec), string(spec)))
		case string(routesSrc) != string(freshRoutes):
			add("routes-differ-from-fresh-session", "%s", firstDiffAt(string(freshRoutes), string(routesSrc)))
		}
	}
	rec.AddExtraInt("reductions_compared", reductions)
	return viols
}

func c19Classify(m c19Model) harness.Class {
	graphs, validateBetween, reds := 0, false, 0
	seenRed := false
	for _, op := range m.History {
		switch op {
		case "graph", "run":
			graphs++
		}
		if op == "validate" && seenRed {
			validateBetween = true
		}
		if op == "intermediate" || op == "run" {
			if seenRed && validateBetween {
				reds++
			}
			seenRed = true
		}
	}
	cross := false
	for _, t := range m.Project.Reachable() {
		if t.Pkg != "" {
			cross = true
		}
	}
	c := harness.Class{}
	if graphs >= 2 {
		c.Labels = append(c.Labels, "graph-generated>=2-times")
	}
	if reds > 0 {
		c.Labels = append(c.Labels, "validate-between-two-reductions")
	}
	if len(m.Project.Controllers) >= 2 {
		c.Labels = append(c.Labels, "controllers>=2")
	}
	c.NonTrivial = graphs >= 2 && reds > 0 && len(m.Project.Controllers) >= 2 && cross
	return c
}

func TestC19(t *testing.T) {
	harness.Run(t, harness.Prop[c19Model]{
		ID:       "C19",
		Gen:      c19Gen,
		Check:    c19Check,
		Classify: c19Classify,
		Canon:    func(m c19Model) string { return jsonStr(m) },
		Sample: func(m c19Model) any {
			return map[string]any{"history": m.History, "project": strings.Split(strings.TrimSpace(m.Project.Describe()), "\n")}
		},
		Rule: "rapid draws accepted projects (full profile: several controllers/files/packages, declared types) and a call HISTORY of length 2-8 over {GenerateGraph, Validate, GenerateIntermediate, Run} " +
			"on ONE GleecePipeline (only constraint: the graph exists before it is used). Oracle: every reduction result of the history (controllers, routes, parameters incl. import serials, models; " +
			"Imports[pkg] as a set) equals the first of the session AND the result of a brand-new pipeline; Validate() returns the same diagnostics each time; node and edge counts through the public " +
			"graph API are constant after the first step and equal a fresh session's; spec and routes bytes generated from the session's last result equal those from the fresh session. " +
			"Non-trivial = history with >=2 graph generations and a Validate between two reductions on a project with >=2 controllers and a cross-package type; distinct = canonical JSON.",
		Assume: []string{"the pipeline is driven in-process through its public methods, as an editor integration would"},
		Floors: map[string]float64{"nontrivial": 0.1, "accepted": 0.9},
	})
}
