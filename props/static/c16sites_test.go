package static

import (
	"fmt"
	"os"
	"path/filepath"
	"sort"
	"strings"
	"testing"

	"pgregory.net/rapid"

	"verif/internal/ev"
	"verif/internal/harness"
	"verif/internal/lab"
	"verif/internal/projgen"
)

// C16 (comment-site half) — "malformed JSON5 is reported as an error, never silently dropped" has to hold at every
// place the pipeline reads a comment block, not only inside NewAnnotationHolder: controller, route, struct, struct
// field, alias, enum type and enum constant each build their own holder and each call site decides what to do with
// the holder's error. One well-linked project is rendered, one annotation line is inserted into the doc comment of
// one declaration, and the real pipeline is run twice: with a well-formed JSON5 object (control) and with a
// malformed one.

type c16sModel struct {
	Site int `json:"site"`
	Bad  int `json:"bad"`
	Name int `json:"name"`
	Desc int `json:"desc"`
}

// every site: the file holding it and the prefix of the (trimmed) declaration line the comment is put above
var c16sSites = []struct{ Label, File, LinePrefix string }{
	{"controller", "api/ctrl0.go", "type Ctl0Controller struct"},
	{"route", "api/ctrl0.go", "func (c *Ctl0Controller) Op0("},
	{"struct", "models/models.go", "type Payload struct"},
	{"struct-field", "models/models.go", "Name "},
	{"alias", "models/models.go", "type Ident "},
	{"enum-type", "models/models.go", "type Color "},
	{"enum-constant-first", "models/models.go", "Red "},
	{"enum-constant-last", "models/models.go", "Blue "},
}

// JSON5 objects that no JSON5 reader accepts (unbalanced or misplaced brackets inside a balanced outer `{...}`, so the
// line still has annotation form), paired with a well-formed sibling of the same shape.
var c16sBad = []struct{ Good, Bad string }{
	{`{reason: [1, 2]}`, `{reason: [1, 2}`},
	{`{a: {b: 1}}`, `{a: {b: 1}`},
	{`{a: 1, b: 2}`, `{a: 1 b: 2}`},
	{`{a: "x"}`, `{a: "x}`},
	{`{a: 1}`, `{a: }`},
	{`{a: [1, 2], b: {c: "}"}}`, `{a: [1, 2], b: {c: "}"}]}`},
}

var c16sNames = []string{"Deprecated", "Description", "TemplateContext"}
var c16sValues = []string{"soon", "v1", "k1"} // always a value: without one `@Name({...})` is not the properties form of the grammar
var c16sDescs = []string{"", " trailing words", " ünï (paren) text"}

func c16sGen(t *rapid.T) c16sModel {
	return c16sModel{
		Site: rapid.IntRange(0, len(c16sSites)-1).Draw(t, "site"),
		Bad:  rapid.IntRange(0, len(c16sBad)-1).Draw(t, "bad"),
		Name: rapid.IntRange(0, len(c16sNames)-1).Draw(t, "name"),
		Desc: rapid.IntRange(0, len(c16sDescs)-1).Draw(t, "desc"),
	}
}

func c16sSweep() []c16sModel {
	var out []c16sModel
	for s := range c16sSites {
		for b := range c16sBad {
			out = append(out, c16sModel{Site: s, Bad: b, Name: (s + b) % len(c16sNames), Desc: (s + 2*b) % len(c16sDescs)})
		}
	}
	return out
}

func c16sBase() *projgen.Project {
	r := lkRoute{Name: "Op0", Verb: "POST", Route: "/r", File: "ctrl0.go", Results: []string{"models.Payload", "error"},
		Params: []lkParam{{"col", "models.Color"}, {"idn", "models.Ident"}},
		Anns:   []lkAnn{{Kind: "Query", Ref: "col"}, {Kind: "Query", Ref: "idn"}}}
	return lkProject([]lkCtrl{{Name: "Ctl0Controller", Prefix: "/c", File: "ctrl0.go", Routes: []lkRoute{r}}}, nil)
}

func (m c16sModel) line(bad bool) string {
	obj := c16sBad[m.Bad].Good
	if bad {
		obj = c16sBad[m.Bad].Bad
	}
	v := c16sValues[m.Name]
	if v != "" {
		v += ", "
	}
	return fmt.Sprintf("// @%s(%s%s)%s", c16sNames[m.Name], v, obj, c16sDescs[m.Desc])
}

// c16sRun writes the base project with `line` inserted directly above the site's declaration ("" = nothing inserted).
func c16sRun(m c16sModel, line string) (*lab.Result, string, error) {
	dir, err := lab.Scratch("c16s-")
	if err != nil {
		return nil, "", err
	}
	defer os.RemoveAll(dir)
	if _, err := c16sBase().WriteTo(dir, projgen.RenderOptions{}, lab.RepoRoot); err != nil {
		return nil, "", err
	}
	site := c16sSites[m.Site]
	shown := ""
	if line != "" {
		path := filepath.Join(dir, site.File)
		b, err := os.ReadFile(path)
		if err != nil {
			return nil, "", err
		}
		lines := strings.Split(string(b), "\n")
		at := -1
		for i, l := range lines {
			if strings.HasPrefix(strings.TrimSpace(l), site.LinePrefix) {
				at = i
				break
			}
		}
		if at < 0 {
			return nil, "", fmt.Errorf("site %s: no line starting with %q in %s", site.Label, site.LinePrefix, site.File)
		}
		indent := lines[at][:len(lines[at])-len(strings.TrimLeft(lines[at], " \t"))]
		lines = append(lines[:at], append([]string{indent + line}, lines[at:]...)...)
		lo, hi := at-4, at+3
		if lo < 0 {
			lo = 0
		}
		if hi > len(lines) {
			hi = len(lines)
		}
		shown = strings.Join(lines[lo:hi], "\n")
		if err := os.WriteFile(path, []byte(strings.Join(lines, "\n")), 0o644); err != nil {
			return nil, "", err
		}
	}
	res := lab.RunInProcess(dir, lab.Want{Diags: true})
	return res, shown, nil
}

func c16sCheck(m c16sModel, rec *ev.Recorder) []harness.Viol {
	site := c16sSites[m.Site]
	ctl, _, err := c16sRun(m, m.line(false))
	if err != nil {
		rec.Inconclusive(err.Error())
		return nil
	}
	if ctl.Panic != "" || ctl.ConfigErr != nil {
		rec.Label("control-not-analysed", 1)
		return nil
	}
	// The control tells whether the annotation as such is acceptable at this site; when it is not, an error on the
	// malformed variant proves nothing and the case is counted but not judged as non-trivial.
	controlAccepted := ctl.RunErr == nil && ctl.ValidateErr == nil
	if controlAccepted {
		rec.Label("control-accepted:"+site.Label, 1)
	} else {
		rec.Label("control-rejected:"+site.Label, 1)
	}
	bad, shown, err := c16sRun(m, m.line(true))
	if err != nil {
		rec.Inconclusive(err.Error())
		return nil
	}
	if bad.Panic != "" {
		rec.Label("malformed-panics (C14's business)", 1)
		return nil
	}
	if bad.ConfigErr == nil && bad.RunErr == nil && bad.ValidateErr == nil {
		return []harness.Viol{{Signature: "C16:sites:malformed-json5-silently-accepted:" + site.Label,
			Message: fmt.Sprintf("a %s comment carries `%s`, whose JSON5 object is malformed, and the pipeline reported no error\n%s", site.Label, m.line(true), shown)}}
	}
	rec.Label("malformed-reported:"+site.Label, 1)
	return nil
}

func c16sClassify(m c16sModel) harness.Class {
	return harness.Class{NonTrivial: true, Labels: []string{"site:" + c16sSites[m.Site].Label, "bad:" + c16sBad[m.Bad].Bad}}
}

func TestC16Sites(t *testing.T) {
	// the base project must be accepted, otherwise every verdict below would be vacuous
	base, _, err := c16sRun(c16sModel{}, "")
	if err != nil || base.Panic != "" || base.ConfigErr != nil || base.RunErr != nil || base.ValidateErr != nil {
		t.Skipf("INCONCLUSIVE: base project not accepted: %v %v", err, base)
	}
	var labels []string
	for _, s := range c16sSites {
		labels = append(labels, s.Label)
	}
	sort.Strings(labels)
	harness.Run(t, harness.Prop[c16sModel]{
		ID:       "C16",
		Gen:      c16sGen,
		Check:    c16sCheck,
		Classify: c16sClassify,
		Sweep:    c16sSweep,
		Canon:    func(m c16sModel) string { return jsonStr(m) },
		Sample: func(m c16sModel) any {
			return map[string]string{"site": c16sSites[m.Site].Label, "control": m.line(false), "malformed": m.line(true)}
		},
		Rule: "comment-site half: one well-linked project (controller, route with an enum and an alias parameter returning a struct); one annotation line `// @Name(value, {json5}) description` is inserted " +
			"into the doc comment of one declaration out of " + strings.Join(labels, ", ") + "; the real pipeline runs on a well-formed object (control) and on a malformed sibling " +
			"(unbalanced bracket, missing comma, unterminated string, missing value, stray closing bracket); oracle = the malformed variant must make the pipeline return an error. " +
			"A deterministic sweep visits every site x malformation on every run; rapid then draws site x malformation x name x description. Non-trivial = every case (each reaches a distinct holder call site); " +
			"labels record per site whether the control was accepted.",
	})
}
