package static

import (
	"fmt"
	"regexp"
	"sort"
	"strings"

	"pgregory.net/rapid"

	"verif/internal/projgen"
)

// The linkage lab (C10, C18): routes are modelled at the level the link rules talk about —
// template names, annotations with their references/aliases, Go parameters with their types,
// result lists, verb — so that arbitrary perturbations stay representable and an
// independent WellLinked predicate can be evaluated on the perturbed route.

type lkAnn struct {
	Kind  string `json:"kind"` // Path Query Header FormField Body
	Ref   string `json:"ref"`
	Alias string `json:"alias,omitempty"`
	// AliasRaw, when set, is written verbatim as the value of the `name` property (wrong-typed aliases)
	AliasRaw string `json:"aliasRaw,omitempty"`
}

type lkParam struct {
	Name string `json:"name"`
	T    string `json:"t"` // Go type as written
}

type lkRoute struct {
	Name    string    `json:"name"`
	Verb    string    `json:"verb"`
	Route   string    `json:"route"`
	Anns    []lkAnn   `json:"anns"`
	Params  []lkParam `json:"params"`
	Results []string  `json:"results"`
	PreDoc  []string  `json:"preDoc,omitempty"` // raw lines placed before the annotations
	Noise   int       `json:"noise,omitempty"`  // free-text / multibyte lines before the annotations
	File    string    `json:"file"`
	Pkg2    bool      `json:"pkg2,omitempty"` // the route's controller lives in package api2, whose ApiError is a plain struct
	Indent string `json:"indent,omitempty"` // white space in front of every line of the doc comment (legal, merely not gofmt'ed)
	// ExtraRoute, when set, is written as a second @Route line after the first (Route is the first and the one that counts)
	ExtraRoute string `json:"extraRoute,omitempty"`
}

type lkCtrl struct {
	Name   string    `json:"name"`
	Prefix string    `json:"prefix"`
	File   string    `json:"file"`
	Routes []lkRoute `json:"routes"`
	NoTag  bool      `json:"noTag,omitempty"` // the controller carries no @Tag (a warning, not an error)
	Pkg2   bool      `json:"pkg2,omitempty"`  // declared in package api2 instead of api
	Group  bool      `json:"group,omitempty"`
}

type lkPert struct {
	Kind string `json:"kind"`
	A    int    `json:"a"`
	B    int    `json:"b"`
}

type lkModel struct {
	Ctrls  []lkCtrl `json:"ctrls"`
	Target [2]int   `json:"target"` // controller, route
	Perts  []lkPert `json:"perts"`
	Noise  []int    `json:"noise,omitempty"`
}

var lkPrims = []string{"string", "int", "bool", "int64", "float64", "uint8"}
var lkScalars = append(append([]string{}, lkPrims...), "models.Color", "models.Ident")

func lkIsCtx(t string) bool      { return t == "context.Context" }
func lkStripPtr(t string) string { return strings.TrimPrefix(t, "*") }

func lkScalar(t string) bool {
	t = lkStripPtr(t)
	for _, s := range lkScalars {
		if s == t {
			return true
		}
	}
	return false
}

func lkSupportedVerb(v string) bool {
	switch v {
	case "GET", "POST", "PUT", "DELETE", "PATCH":
		return true
	}
	return false
}

var lkTemplateName = regexp.MustCompile(`\{([^{}]*)\}`)

func lkTemplateNames(full string) []string {
	var out []string
	for _, m := range lkTemplateName.FindAllStringSubmatch(full, -1) {
		out = append(out, m[1])
	}
	return out
}

// lkWellLinked is the statement of C10 as a predicate (with the narrowing recorded in DESIGN.md:
// a bare primitive body is one of gleece's explicit coded rejections). It returns the rules broken.
func lkWellLinked(prefix string, r lkRoute) []string {
	var broken []string
	// R6 verb
	if !lkSupportedVerb(r.Verb) {
		broken = append(broken, "R6:verb")
	}
	// R5 results
	okErr := func(t string) bool {
		if r.Pkg2 && (t == "ApiError" || t == "*ApiError") {
			return false // api2.ApiError shares its name with api.ApiError but does not embed error
		}
		return t == "error" || t == "ApiError" || t == "*ApiError"
	}
	switch len(r.Results) {
	case 1:
		if !okErr(r.Results[0]) {
			broken = append(broken, "R5:results")
		}
	case 2:
		if !okErr(r.Results[1]) {
			broken = append(broken, "R5:results")
		}
	default:
		broken = append(broken, "R5:results")
	}
	// R1 template names <-> @Path bindings, one-to-one
	names := lkTemplateNames(prefix + r.Route)
	nameCount := map[string]int{}
	for _, n := range names {
		nameCount[n]++
	}
	bindCount := map[string]int{}
	for _, a := range r.Anns {
		if a.Kind == "Path" {
			b := a.Ref
			if a.Alias != "" {
				b = a.Alias
			}
			bindCount[b]++
		}
	}
	r1 := true
	for _, a := range r.Anns {
		if a.AliasRaw != "" { // a name property that is not a string binds nothing
			r1 = false
		}
	}
	for n, c := range nameCount {
		if c != 1 || bindCount[n] != 1 {
			r1 = false
		}
	}
	for b, c := range bindCount {
		if c != 1 || nameCount[b] != 1 {
			r1 = false
		}
	}
	if !r1 {
		broken = append(broken, "R1:template-path-bijection")
	}
	// R2 parameters <-> annotations
	paramType := map[string]string{}
	for _, p := range r.Params {
		if !lkIsCtx(p.T) {
			paramType[p.Name] = p.T
		}
	}
	refCount := map[string]int{}
	r2 := true
	for _, a := range r.Anns {
		if _, ok := paramType[a.Ref]; !ok {
			r2 = false
		}
		refCount[a.Ref]++
	}
	for n := range paramType {
		if refCount[n] != 1 {
			r2 = false
		}
	}
	if !r2 {
		broken = append(broken, "R2:params-annotations")
	}
	// R3 bodies and forms
	bodies, forms := 0, 0
	for _, a := range r.Anns {
		switch a.Kind {
		case "Body":
			bodies++
		case "FormField":
			forms++
		}
	}
	if bodies > 1 || (bodies > 0 && forms > 0) {
		broken = append(broken, "R3:body-form")
	}
	// R4 types by location
	r4 := true
	for _, a := range r.Anns {
		t, ok := paramType[a.Ref]
		if !ok {
			continue
		}
		if a.Kind == "Body" {
			if lkScalar(t) || t == "error" { // coded rejection: bare primitive/special body
				r4 = false
			}
			continue
		}
		if strings.HasPrefix(t, "[]") {
			if a.Kind != "Query" || !lkScalar(strings.TrimPrefix(t, "[]")) {
				r4 = false
			}
			continue
		}
		if !lkScalar(t) {
			r4 = false
		}
	}
	if !r4 {
		broken = append(broken, "R4:param-types")
	}
	sort.Strings(broken)
	return broken
}

// ---- generation of well-formed routes ------------------------------------------------

func lkGenRoute(t *rapid.T, idx int, file string) lkRoute {
	r := lkRoute{Name: fmt.Sprintf("Op%d", idx), Verb: rapid.SampledFrom([]string{"GET", "POST", "PUT", "DELETE", "PATCH"}).Draw(t, "verb"), File: file}
	r.Indent = rapid.SampledFrom([]string{"", "", "\t", "  ", "\t\t   "}).Draw(t, "indent")
	segs := []string{fmt.Sprintf("r%d", idx)}
	np := rapid.IntRange(0, 2).Draw(t, "nPath")
	for i := 0; i < np; i++ {
		tn := []string{"id", "name", "key"}[i]
		segs = append(segs, "{"+tn+"}")
		if rapid.Bool().Draw(t, "lit") {
			segs = append(segs, "x")
		}
		typ := rapid.SampledFrom([]string{"string", "int", "int64", "models.Color", "models.Ident", "bool", "*string", "*int"}).Draw(t, "ptype")
		if rapid.IntRange(0, 2).Draw(t, "aliased") == 0 {
			pn := "p" + tn
			r.Params = append(r.Params, lkParam{pn, typ})
			r.Anns = append(r.Anns, lkAnn{Kind: "Path", Ref: pn, Alias: tn})
		} else {
			r.Params = append(r.Params, lkParam{tn, typ})
			r.Anns = append(r.Anns, lkAnn{Kind: "Path", Ref: tn})
		}
	}
	r.Route = "/" + strings.Join(segs, "/")
	mode := "none"
	if r.Verb != "GET" && r.Verb != "DELETE" {
		mode = rapid.SampledFrom([]string{"none", "body", "form"}).Draw(t, "bodyMode")
	}
	nx := rapid.IntRange(0, 3).Draw(t, "nExtra")
	for i := 0; i < nx; i++ {
		name := fmt.Sprintf("%s%d", rapid.SampledFrom([]string{"q", "h", "lim"}).Draw(t, "xn"), i)
		switch rapid.SampledFrom([]string{"Query", "Query", "Header"}).Draw(t, "loc") {
		case "Query":
			typ := rapid.SampledFrom(lkScalars).Draw(t, "qt")
			switch rapid.IntRange(0, 4).Draw(t, "qshape") {
			case 0:
				typ = "[]" + typ
			case 1:
				typ = "*" + typ
			}
			r.Params = append(r.Params, lkParam{name, typ})
			a := lkAnn{Kind: "Query", Ref: name}
			if rapid.IntRange(0, 3).Draw(t, "qalias") == 0 {
				a.Alias = "x-" + name
			}
			r.Anns = append(r.Anns, a)
		default:
			typ := rapid.SampledFrom(lkScalars).Draw(t, "ht")
			if rapid.IntRange(0, 3).Draw(t, "hptr") == 0 {
				typ = "*" + typ
			}
			r.Params = append(r.Params, lkParam{name, typ})
			r.Anns = append(r.Anns, lkAnn{Kind: "Header", Ref: name})
		}
	}
	switch mode {
	case "body":
		r.Params = append(r.Params, lkParam{"payload", rapid.SampledFrom([]string{"models.Payload", "*models.Payload", "[]models.Payload", "map[string]models.Payload"}).Draw(t, "bt")})
		r.Anns = append(r.Anns, lkAnn{Kind: "Body", Ref: "payload"})
	case "form":
		n := rapid.IntRange(1, 2).Draw(t, "nForm")
		for i := 0; i < n; i++ {
			name := fmt.Sprintf("f%d", i)
			r.Params = append(r.Params, lkParam{name, rapid.SampledFrom(lkScalars).Draw(t, "ft")})
			r.Anns = append(r.Anns, lkAnn{Kind: "FormField", Ref: name})
		}
	}
	if rapid.IntRange(0, 3).Draw(t, "ctx") == 0 {
		pos := rapid.IntRange(0, len(r.Params)).Draw(t, "ctxPos")
		r.Params = append(r.Params[:pos], append([]lkParam{{"ctx", "context.Context"}}, r.Params[pos:]...)...)
	}
	r.Results = rapid.SampledFrom([][]string{{"error"}, {"string", "error"}, {"models.Payload", "error"}, {"[]models.Payload", "error"}, {"ApiError"}, {"models.Payload", "*ApiError"}, {"int", "ApiError"}}).Draw(t, "results")
	// annotation order is a drawn permutation
	perm := rapid.Permutation(r.Anns).Draw(t, "annOrder")
	r.Anns = perm
	r.Noise = rapid.IntRange(0, 3).Draw(t, "docNoise")
	return r
}

var lkPertKinds = []string{"dropAnn", "dupAnn", "renameRef", "retarget", "strayAnn", "aliasUnknown", "aliasDup", "dupTemplateName", "unboundTemplateName",
	"aliasWrongType", "prefixParam", "pathNotInTemplate", "extraParam", "twoBodies", "bodyAndForm", "retype", "bodyPrimitive", "results", "verb", "changeKind", "neutralAlias", "secCollision", "reorderAnns", "bodyAndForm", "secondBinding", "aliasWrongTypeAll", "aliasWrongTypeGhost", "siblingConflict", "dropTag", "oddNameAliased", "oddNameUnbound", "namesakeNotError", "twoRoutes"}

func lkGen(t *rapid.T) lkModel {
	var m lkModel
	nc := rapid.IntRange(1, 2).Draw(t, "nCtrls")
	idx := 0
	for ci := 0; ci < nc; ci++ {
		c := lkCtrl{Name: []string{"AlphaController", "BetaController"}[ci], Prefix: fmt.Sprintf("/c%d", ci), File: fmt.Sprintf("ctrl%d.go", ci), Group: rapid.IntRange(0, 3).Draw(t, "group") == 0}
		nr := rapid.IntRange(1, 3).Draw(t, "nRoutes")
		for ri := 0; ri < nr; ri++ {
			file := c.File
			if rapid.IntRange(0, 2).Draw(t, "otherFile") == 0 {
				file = fmt.Sprintf("handlers%d.go", ci)
			}
			c.Routes = append(c.Routes, lkGenRoute(t, idx, file))
			idx++
		}
		m.Ctrls = append(m.Ctrls, c)
		m.Noise = append(m.Noise, rapid.IntRange(0, 7).Draw(t, "noise"))
	}
	tc := rapid.IntRange(0, nc-1).Draw(t, "targetCtrl")
	m.Target = [2]int{tc, rapid.IntRange(0, len(m.Ctrls[tc].Routes)-1).Draw(t, "targetRoute")}
	np := rapid.SampledFrom([]int{0, 1, 1, 1, 2}).Draw(t, "nPerts")
	for i := 0; i < np; i++ {
		m.Perts = append(m.Perts, lkPert{Kind: rapid.SampledFrom(lkPertKinds).Draw(t, "pert"), A: rapid.IntRange(0, 99).Draw(t, "a"), B: rapid.IntRange(0, 99).Draw(t, "b")})
	}
	return m
}

// lkSweep enumerates the catalogue instead of sampling it: for a few generated base projects, every
// perturbation kind with both parities of its two selectors, aimed at the first route it applies to.
func lkSweep() []lkModel {
	var out []lkModel
	seen := map[string]bool{}
	kinds := map[string]bool{}
	example := 0
	for base := 0; base < 2; base++ {
		var m lkModel
		for { // base projects with two controllers (in two files): some diagnostics depend on which file was visited last
			example++
			m = rapid.Custom(lkGen).Example(example)
			if len(m.Ctrls) == 2 || example > 40 {
				break
			}
		}
		m.Perts = nil
		for _, kind := range lkPertKinds {
			if base == 0 && kinds[kind] {
				continue // the catalogue lists a weighted kind twice
			}
			kinds[kind] = true
			// both parities of the two selectors; kinds whose selector indexes a list of options get the whole list
			sel := [][2]int{{0, 0}, {1, 0}, {0, 1}, {1, 1}}
			switch kind {
			case "retype":
				sel = [][2]int{{0, 0}, {0, 1}, {0, 2}, {0, 3}, {0, 4}, {0, 5}, {0, 6}, {1, 0}, {1, 6}}
			case "results":
				sel = [][2]int{{0, 0}, {1, 0}, {2, 0}, {3, 0}, {4, 0}, {5, 0}, {6, 0}}
			case "verb":
				sel = [][2]int{{0, 0}, {1, 0}, {2, 0}, {3, 0}, {4, 0}, {5, 0}}
			case "aliasWrongType":
				sel = [][2]int{{0, 0}, {0, 1}, {0, 2}, {0, 3}, {0, 4}, {1, 0}}
			case "strayAnn", "bodyPrimitive":
				sel = [][2]int{{0, 0}, {1, 0}, {2, 0}}
			}
			for _, ab := range sel {
				mm := m
				mm.Perts = []lkPert{{Kind: kind, A: ab[0], B: ab[1]}}
				if base == 1 && kind != "siblingConflict" {
					// the second base project carries a route-conflict warning on the target's controller throughout
					mm.Perts = append([]lkPert{{Kind: "siblingConflict"}}, mm.Perts...)
				}
				best := -1
			targets:
				for ci := range m.Ctrls {
					for ri := range m.Ctrls[ci].Routes {
						try := mm
						try.Target = [2]int{ci, ri}
						if _, applied := lkApply(try); len(applied) > best {
							best, mm.Target = len(applied), try.Target
							if best == len(mm.Perts) {
								break targets
							}
						}
					}
				}
				if k := jsonStr(mm); !seen[k] {
					seen[k] = true
					out = append(out, mm)
				}
			}
		}
	}
	return out
}

// lkApply returns the perturbed controllers plus, per applied perturbation, what it did.
func lkApply(m lkModel) ([]lkCtrl, []string) {
	ctrls := make([]lkCtrl, len(m.Ctrls))
	for i, c := range m.Ctrls {
		cc := c
		cc.Routes = make([]lkRoute, len(c.Routes))
		for j, r := range c.Routes {
			rr := r
			rr.Anns = append([]lkAnn(nil), r.Anns...)
			rr.Params = append([]lkParam(nil), r.Params...)
			rr.Results = append([]string(nil), r.Results...)
			rr.PreDoc = append([]string(nil), r.PreDoc...)
			cc.Routes[j] = rr
		}
		ctrls[i] = cc
	}
	if m.Target[0] >= len(ctrls) || m.Target[1] >= len(ctrls[m.Target[0]].Routes) {
		return ctrls, nil
	}
	c := &ctrls[m.Target[0]]
	r := &c.Routes[m.Target[1]]
	var applied []string
	annIdx := func(pred func(lkAnn) bool, pick int) int {
		var idx []int
		for i, a := range r.Anns {
			if pred(a) {
				idx = append(idx, i)
			}
		}
		if len(idx) == 0 {
			return -1
		}
		return idx[pick%len(idx)]
	}
	anyAnn := func(lkAnn) bool { return true }
	isPath := func(a lkAnn) bool { return a.Kind == "Path" }
	paramIdx := func(name string) int {
		for i, p := range r.Params {
			if p.Name == name {
				return i
			}
		}
		return -1
	}
	for _, p := range m.Perts {
		switch p.Kind {
		case "dropAnn":
			if i := annIdx(anyAnn, p.A); i >= 0 {
				applied = append(applied, fmt.Sprintf("dropAnn:%s(%s)", r.Anns[i].Kind, r.Anns[i].Ref))
				r.Anns = append(r.Anns[:i], r.Anns[i+1:]...)
			}
		case "dupAnn":
			if i := annIdx(anyAnn, p.A); i >= 0 {
				applied = append(applied, fmt.Sprintf("dupAnn:%s(%s)", r.Anns[i].Kind, r.Anns[i].Ref))
				r.Anns = append(r.Anns, r.Anns[i])
			}
		case "renameRef":
			if i := annIdx(anyAnn, p.A); i >= 0 {
				applied = append(applied, fmt.Sprintf("renameRef:%s(%s->ghost)", r.Anns[i].Kind, r.Anns[i].Ref))
				r.Anns[i].Ref = "ghost"
			}
		case "retarget":
			if i := annIdx(func(a lkAnn) bool { return a.Kind != "Path" }, p.A); i >= 0 {
				var others []string
				for _, q := range r.Params {
					if !lkIsCtx(q.T) && q.Name != r.Anns[i].Ref {
						others = append(others, q.Name)
					}
				}
				if len(others) > 0 {
					to := others[p.B%len(others)]
					applied = append(applied, fmt.Sprintf("retarget:%s(%s->%s)", r.Anns[i].Kind, r.Anns[i].Ref, to))
					r.Anns[i].Ref = to
				}
			}
		case "strayAnn":
			k := []string{"Query", "Header", "Path"}[p.A%3]
			r.Anns = append(r.Anns, lkAnn{Kind: k, Ref: "ghost2"})
			applied = append(applied, "strayAnn:"+k)
		case "aliasUnknown":
			if i := annIdx(isPath, p.A); i >= 0 {
				r.Anns[i].Alias = "nope"
				applied = append(applied, "aliasUnknown:"+r.Anns[i].Ref)
			}
		case "aliasWrongType":
			if i := annIdx(isPath, p.A); i >= 0 {
				r.Anns[i].AliasRaw = []string{"5", "true", "[\"id\"]", "{a: 1}", "null"}[p.B%5]
				applied = append(applied, "aliasWrongType:"+r.Anns[i].Ref)
			}
		case "aliasWrongTypeAll":
			// every @Path of the route carries a name that is not a string (each is looked at by several validation steps)
			n := 0
			for i := range r.Anns {
				if r.Anns[i].Kind == "Path" {
					r.Anns[i].AliasRaw = []string{"5", "true", "[\"id\"]", "{a: 1}", "null"}[(p.B+n)%5]
					n++
				}
			}
			if n > 0 {
				applied = append(applied, fmt.Sprintf("aliasWrongTypeAll:%d", n))
			}
		case "aliasWrongTypeGhost":
			// a malformed name on a @Path that also references no parameter
			if i := annIdx(isPath, p.A); i >= 0 {
				r.Anns[i].AliasRaw = []string{"5", "true", "[\"id\"]", "{a: 1}", "null"}[p.B%5]
				r.Anns[i].Ref = "ghost"
				applied = append(applied, "aliasWrongTypeGhost")
			}
		case "aliasDup":
			i, j := annIdx(isPath, 0), annIdx(isPath, 1)
			if i >= 0 && j >= 0 && i != j {
				b := r.Anns[i].Ref
				if r.Anns[i].Alias != "" {
					b = r.Anns[i].Alias
				}
				r.Anns[j].Alias = b
				applied = append(applied, "aliasDup:"+b)
			}
		case "twoRoutes":
			// a second @Route on the method (gleece warns about the duplicate): the first one is the route, so the rules are
			// about the first one - whether the good template comes first (neutral) or the bogus one (breaks the rules)
			if r.ExtraRoute == "" {
				if p.A%2 == 0 {
					r.ExtraRoute = "/bogus/{nope}"
				} else {
					r.ExtraRoute, r.Route = r.Route, "/bogus/{nope}"
				}
				applied = append(applied, fmt.Sprintf("twoRoutes:bogusFirst=%v", p.A%2 == 1))
			}
		case "namesakeNotError":
			// the controller moves to a second package that declares its own ApiError - a plain struct. A route returning
			// it there is ill-formed, whatever api.ApiError (which does embed error) is
			if !c.Pkg2 {
				c.Pkg2 = true
				for i := range c.Routes {
					c.Routes[i].Pkg2 = true
				}
				r.Results = []string{"string", []string{"ApiError", "*ApiError"}[p.A%2]}
				// and the genuine error type is in use elsewhere, so that both namesakes are looked at in one run
				for oi := range ctrls {
					if !ctrls[oi].Pkg2 && len(ctrls[oi].Routes) > 0 {
						ctrls[oi].Routes[0].Results = []string{"string", "ApiError"}
					}
				}
				applied = append(applied, "namesakeNotError")
			}
		case "oddNameAliased", "oddNameUnbound":
			// a URL parameter whose name is not an identifier ({order-id}, {file.name}): legal in a template; bound through
			// an alias it is fine, left unbound it breaks the template/binding correspondence
			if i := annIdx(isPath, p.A); i >= 0 {
				old := r.Anns[i].Ref
				if r.Anns[i].Alias != "" {
					old = r.Anns[i].Alias
				}
				odd := []string{"order-id", "x-y-z", "a--b"}[p.B%3] // within the annotation value alphabet ([\w-_/\\{} ]): a dot would turn the line into free text
				if strings.Contains(r.Route, "{"+old+"}") && !strings.Contains(r.Route, "{"+odd+"}") {
					r.Route = strings.Replace(r.Route, "{"+old+"}", "{"+odd+"}", 1)
					if p.Kind == "oddNameAliased" {
						r.Anns[i].Alias = odd
					} else if r.Anns[i].Alias != "" {
						r.Anns[i].Alias = "" // bound by its Go name, which the template no longer mentions
					}
					applied = append(applied, p.Kind+":"+odd)
				}
			}
		case "dropTag":
			// neutral for linkage: the controller loses its @Tag, which gleece reports as a warning on the controller
			if !c.NoTag {
				c.NoTag = true
				applied = append(applied, "dropTag:"+c.Name)
			}
		case "siblingConflict":
			// neutral for linkage: a second, well-linked route of the same verb that overlaps this one (the last {name}
			// replaced by a literal), so that the project carries a route-conflict warning next to whatever else happens
			names := lkTemplateNames(r.Route)
			have := false
			for _, o := range c.Routes {
				if o.Name == r.Name+"Sib" {
					have = true
				}
			}
			if len(names) > 0 && !have {
				last := names[len(names)-1]
				sib := *r
				sib.Name = r.Name + "Sib"
				sib.Route = strings.Replace(r.Route, "{"+last+"}", "latest", 1)
				sib.Anns, sib.Params, sib.PreDoc = nil, nil, append([]string(nil), r.PreDoc...)
				sib.Results = append([]string(nil), r.Results...)
				dropped := ""
				for _, a := range r.Anns {
					bound := a.Ref
					if a.Alias != "" {
						bound = a.Alias
					}
					if a.Kind == "Path" && bound == last && dropped == "" {
						dropped = a.Ref
						continue
					}
					sib.Anns = append(sib.Anns, a)
				}
				for _, q := range r.Params {
					if q.Name != dropped {
						sib.Params = append(sib.Params, q)
					}
				}
				if dropped != "" {
					c.Routes = append(c.Routes, sib)
					r = &c.Routes[m.Target[1]]
					applied = append(applied, "siblingConflict")
				}
			}
		case "secondBinding":
			// a second @Path bound to a template name that already has one; nothing else is wrong
			if i := annIdx(isPath, p.A); i >= 0 && paramIdx("twin") < 0 {
				b := r.Anns[i].Ref
				if r.Anns[i].Alias != "" {
					b = r.Anns[i].Alias
				}
				r.Params = append(r.Params, lkParam{"twin", "string"})
				twin := lkAnn{Kind: "Path", Ref: "twin", Alias: b}
				if p.B%2 == 1 {
					r.Anns = append([]lkAnn{twin}, r.Anns...)
				} else {
					r.Anns = append(r.Anns, twin)
				}
				applied = append(applied, "secondBinding:"+b)
			}
		case "dupTemplateName":
			if names := lkTemplateNames(r.Route); len(names) > 0 {
				r.Route += "/{" + names[p.A%len(names)] + "}"
				applied = append(applied, "dupTemplateName")
			}
		case "unboundTemplateName":
			r.Route += "/{extra}"
			applied = append(applied, "unboundTemplateName")
		case "prefixParam":
			if !strings.Contains(c.Prefix, "{") {
				c.Prefix += "/{tenant}"
				applied = append(applied, "prefixParam")
			}
		case "pathNotInTemplate":
			if paramIdx("loose") < 0 {
				r.Params = append(r.Params, lkParam{"loose", "string"})
				r.Anns = append(r.Anns, lkAnn{Kind: "Path", Ref: "loose"})
				applied = append(applied, "pathNotInTemplate")
			}
		case "extraParam":
			if paramIdx("unref") < 0 {
				r.Params = append(r.Params, lkParam{"unref", "int"})
				applied = append(applied, "extraParam")
			}
		case "twoBodies":
			if annIdx(func(a lkAnn) bool { return a.Kind == "FormField" }, 0) < 0 && paramIdx("b2") < 0 {
				if annIdx(func(a lkAnn) bool { return a.Kind == "Body" }, 0) < 0 {
					r.Params = append(r.Params, lkParam{"b1", "models.Payload"})
					r.Anns = append(r.Anns, lkAnn{Kind: "Body", Ref: "b1"})
				}
				r.Params = append(r.Params, lkParam{"b2", "models.Payload"})
				r.Anns = append(r.Anns, lkAnn{Kind: "Body", Ref: "b2"})
				applied = append(applied, "twoBodies")
			}
		case "bodyAndForm":
			if paramIdx("bf") < 0 && paramIdx("ff") < 0 {
				// either order: the exclusion must not depend on which of the two annotations is written first
				var add []lkAnn
				if annIdx(func(a lkAnn) bool { return a.Kind == "Body" }, 0) < 0 {
					r.Params = append(r.Params, lkParam{"bf", "models.Payload"})
					add = append(add, lkAnn{Kind: "Body", Ref: "bf"})
				}
				if annIdx(func(a lkAnn) bool { return a.Kind == "FormField" }, 0) < 0 {
					r.Params = append(r.Params, lkParam{"ff", "string"})
					add = append(add, lkAnn{Kind: "FormField", Ref: "ff"})
				}
				if p.A%2 == 1 && len(add) == 2 {
					add[0], add[1] = add[1], add[0]
				}
				if p.B%2 == 1 {
					r.Anns = append(add, r.Anns...)
				} else {
					r.Anns = append(r.Anns, add...)
				}
				applied = append(applied, fmt.Sprintf("bodyAndForm:order%d:front%d", p.A%2, p.B%2))
			}
		case "reorderAnns":
			// neutral: which annotation comes first says nothing about linkage
			if n := len(r.Anns); n > 1 {
				k := 1 + p.A%(n-1)
				r.Anns = append(append([]lkAnn(nil), r.Anns[k:]...), r.Anns[:k]...)
				if p.B%2 == 1 {
					for i, j := 0, len(r.Anns)-1; i < j; i, j = i+1, j-1 {
						r.Anns[i], r.Anns[j] = r.Anns[j], r.Anns[i]
					}
				}
				applied = append(applied, "reorderAnns")
			}
		case "retype":
			if i := annIdx(func(a lkAnn) bool { return a.Kind != "Body" && paramIdx(a.Ref) >= 0 }, p.A); i >= 0 {
				nt := []string{"models.Payload", "map[string]string", "error", "[]models.Payload", "*models.Payload", "[]string", "models.PayloadAlias"}[p.B%7]
				r.Params[paramIdx(r.Anns[i].Ref)].T = nt
				applied = append(applied, fmt.Sprintf("retype:%s(%s:%s)", r.Anns[i].Kind, r.Anns[i].Ref, nt))
			}
		case "bodyPrimitive":
			if i := annIdx(func(a lkAnn) bool { return a.Kind == "Body" && paramIdx(a.Ref) >= 0 }, 0); i >= 0 {
				r.Params[paramIdx(r.Anns[i].Ref)].T = []string{"string", "int", "*string"}[p.A%3]
				applied = append(applied, "bodyPrimitive")
			}
		case "results":
			opts := [][]string{{}, {"string"}, {"string", "int", "error"}, {"string", "models.Payload"}, {"models.Payload", "ApiError"}, {"*ApiError"}, {"models.Payload"}}
			r.Results = opts[p.A%len(opts)]
			applied = append(applied, "results:("+strings.Join(r.Results, ",")+")")
		case "verb":
			r.Verb = []string{"HEAD", "OPTIONS", "TRACE", "CONNECT", "get", "FETCH"}[p.A%6]
			applied = append(applied, "verb:"+r.Verb)
		case "changeKind":
			if i := annIdx(func(a lkAnn) bool { return a.Kind == "Query" || a.Kind == "Header" }, p.A); i >= 0 {
				if r.Anns[i].Kind == "Query" {
					r.Anns[i].Kind = "Header"
				} else {
					r.Anns[i].Kind = "Query"
				}
				applied = append(applied, "changeKind:"+r.Anns[i].Ref)
			}
		case "neutralAlias":
			if i := annIdx(func(a lkAnn) bool { return a.Kind == "Query" || a.Kind == "Header" }, p.A); i >= 0 {
				r.Anns[i].Alias = "X-Renamed-" + r.Anns[i].Ref
				applied = append(applied, "neutralAlias:"+r.Anns[i].Ref)
			}
		case "secCollision":
			if i := annIdx(func(a lkAnn) bool { return a.Kind == "Query" || a.Kind == "Header" }, p.A); i >= 0 {
				r.PreDoc = append(r.PreDoc, "// @Security("+r.Anns[i].Ref+")")
				applied = append(applied, "secCollision:"+r.Anns[i].Ref)
			}
		}
	}
	return ctrls, applied
}

// ---- rendering into a project ----------------------------------------------------------

func (r lkRoute) docLines() []string {
	var lines []string
	for i := 0; i < r.Noise; i++ {
		lines = append(lines, []string{"// Free text with ünïcödé and 日本語 before the annotations.", "//", "// second line (parenthesised) {braces}"}[i%3])
	}
	lines = append(lines, r.PreDoc...)
	lines = append(lines, "// @Method("+r.Verb+")", "// @Route("+r.Route+")")
	if r.ExtraRoute != "" {
		lines = append(lines, "// @Route("+r.ExtraRoute+")")
	}
	for _, a := range r.Anns {
		l := "// @" + a.Kind + "(" + a.Ref
		if a.AliasRaw != "" {
			l += ", { name: " + a.AliasRaw + " }"
		} else if a.Alias != "" {
			l += ", { name: \"" + a.Alias + "\" }"
		}
		lines = append(lines, l+") üñï desc")
	}
	for i := range lines {
		lines[i] = r.Indent + lines[i]
	}
	return lines
}

func (r lkRoute) signature() (string, []string) {
	var ps []string
	imports := map[string]bool{}
	note := func(t string) {
		if strings.Contains(t, "models.") {
			imports[projgen.Module+"/models"] = true
		}
		if strings.Contains(t, "context.") {
			imports["context"] = true
		}
	}
	for _, p := range r.Params {
		ps = append(ps, p.Name+" "+p.T)
		note(p.T)
	}
	res := ""
	switch len(r.Results) {
	case 0:
	case 1:
		res = " " + r.Results[0]
	default:
		res = " (" + strings.Join(r.Results, ", ") + ")"
	}
	for _, t := range r.Results {
		note(t)
	}
	var imps []string
	for i := range imports {
		imps = append(imps, i)
	}
	sort.Strings(imps)
	return "(" + strings.Join(ps, ", ") + ")" + res, imps
}

func lkProject(ctrls []lkCtrl, noise []int) *projgen.Project {
	p := &projgen.Project{Noise: noise}
	p.Config = projgen.Config{Engine: "gin", OpenAPI: "3.0.0", Globs: []string{"./api/*.go"}, RoutesOut: "./dist/routes/gleece.go", SpecOut: "./dist/openapi.json",
		AuthPkg: projgen.Module + "/auth", Title: "t", Version: "1", BaseURL: "https://example.com", SkipDate: true,
		Schemes: []projgen.Scheme{{Name: "apiKeyAuth", Type: "apiKey", In: "header", FieldName: "X-Api-Key", Description: "key"}}}
	p.Types = []*projgen.TypeDecl{
		{Name: "Payload", Pkg: "models", File: "models.go", Kind: "struct", Fields: []projgen.Field{{Name: "Name", Type: projgen.Prim("string")}, {Name: "N", Type: projgen.Prim("int")}}},
		{Name: "Color", Pkg: "models", File: "models.go", Kind: "enum", Base: "string", Consts: []projgen.EnumConst{{Name: "Red", Value: `"red"`}, {Name: "Blue", Value: `"blue"`}}},
		{Name: "Ident", Pkg: "models", File: "models.go", Kind: "alias", Base: "string"},
		{Name: "PayloadAlias", Pkg: "models", File: "models.go", Kind: "alias", Base: "Payload"}, // a defined type over a struct: not a primitive alias
		{Name: "ApiError", Pkg: "api", File: "errors.go", Kind: "struct", EmbedsError: true, Fields: []projgen.Field{{Name: "Code", Type: projgen.Prim("int")}}},
	}
	declared := map[string]bool{"apiKeyAuth": true}
	for _, c := range ctrls {
		for _, r := range c.Routes {
			for _, l := range r.PreDoc {
				if strings.HasPrefix(l, "// @Security(") {
					name := strings.TrimSuffix(strings.TrimPrefix(l, "// @Security("), ")")
					if !declared[name] {
						declared[name] = true
						p.Config.Schemes = append(p.Config.Schemes, projgen.Scheme{Name: name, Type: "apiKey", In: "header", FieldName: "X-" + name, Description: "scheme named like a parameter"})
					}
				}
			}
		}
	}
	for _, c := range ctrls {
		tag := c.Name
		pc := &projgen.Controller{Name: c.Name, Pkg: "api", File: c.File, Tag: &tag, Route: c.Prefix, HasRoute: true, Grouped: c.Group}
		if c.Pkg2 {
			pc.Pkg = "api2"
			if p.FindType("api2", "ApiError") == nil {
				p.Types = append(p.Types, &projgen.TypeDecl{Name: "ApiError", Pkg: "api2", File: "errors.go", Kind: "struct", Fields: []projgen.Field{{Name: "Code", Type: projgen.Prim("int")}}})
				p.Config.Globs = append(p.Config.Globs, "./api2/*.go")
			}
		}
		if c.NoTag {
			pc.Tag = nil
		}
		for _, r := range c.Routes {
			sig, imps := r.signature()
			pc.Methods = append(pc.Methods, &projgen.Method{Name: r.Name, File: r.File, Verb: r.Verb, Route: r.Route, RawDoc: r.docLines(), RawSig: sig, RawImports: imps})
		}
		p.Controllers = append(p.Controllers, pc)
	}
	return p
}

func lkDescribe(ctrls []lkCtrl) string {
	var sb strings.Builder
	for _, c := range ctrls {
		fmt.Fprintf(&sb, "%s prefix=%q (%s)\n", c.Name, c.Prefix, c.File)
		for _, r := range c.Routes {
			sig, _ := r.signature()
			fmt.Fprintf(&sb, "  %s [%s]\n", r.Name+sig, r.File)
			for _, l := range r.docLines() {
				if strings.HasPrefix(l, "// @") {
					fmt.Fprintf(&sb, "    %s\n", l)
				}
			}
		}
	}
	return sb.String()
}
