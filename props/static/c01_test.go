package static

import (
	"fmt"
	"testing"

	"pgregory.net/rapid"

	"verif/internal/ev"
	"verif/internal/harness"
	"verif/internal/lab"
	"verif/internal/projgen"
)

// C01 — OpenAPI operations are exactly the non-hidden annotated routes.

func c01Check(p *projgen.Project, rec *ev.Recorder) []harness.Viol {
	res, _, err := runProject(p, lab.Want{Versions: bothVersions})
	if err != nil {
		rec.Inconclusive("scratch project: " + err.Error())
		return nil
	}
	if res.Panic != "" {
		rec.Label("gleece-panicked (reported under C14)", 1)
		return nil
	}
	if !res.Accepted() {
		rec.Label("rejected", 1)
		rec.SetExtra("last_rejection", fmtErr(res.RunErr)+fmtErr(res.ConfigErr))
		return nil
	}
	rec.Label("accepted", 1)
	var viols []harness.Viol
	want := map[string]projgen.Op{}
	for _, op := range p.ExpectedOps() {
		if !op.Method.Hidden {
			want[op.Verb+" "+op.Path] = op
		}
	}
	for _, v := range bothVersions {
		if res.SpecErr[v] != nil {
			rec.Label("accepted-but-no-spec:"+v, 1)
			rec.SetExtra("last_spec_error", fmtErr(res.SpecErr[v]))
			continue
		}
		doc, err := parseSpec(res.Spec[v])
		if err != nil {
			viols = append(viols, harness.Viol{Signature: "C01:spec-not-json:" + v, Message: err.Error()})
			continue
		}
		got := specOps(doc)
		for _, k := range sortedKeys(got) {
			if _, ok := want[k]; !ok {
				cls := "invented"
				for _, op := range p.ExpectedOps() {
					if op.Verb+" "+op.Path == k && op.Method.Hidden {
						cls = "hidden-route-documented"
					}
				}
				viols = append(viols, harness.Viol{Signature: "C01:" + cls, Message: fmt.Sprintf("[%s] document has operation %s (operationId %v) which no visible annotated method defines\n%s", v, k, got[k].Raw["operationId"], p.Describe())})
			}
		}
		for _, k := range sortedKeys(want) {
			g, ok := got[k]
			w := want[k]
			if !ok {
				viols = append(viols, harness.Viol{Signature: "C01:dropped", Message: fmt.Sprintf("[%s] annotated route %s (%s.%s) is missing from the document; it has %v\n%s", v, k, w.Controller.Name, w.Method.Name, sortedKeys(got), p.Describe())})
				continue
			}
			if id, _ := g.Raw["operationId"].(string); id != w.Method.Name {
				viols = append(viols, harness.Viol{Signature: "C01:operationId", Message: fmt.Sprintf("[%s] %s: operationId %q, method is %s.%s", v, k, id, w.Controller.Name, w.Method.Name)})
			}
			tags, _ := g.Raw["tags"].([]any)
			if len(tags) != 1 || fmt.Sprint(tags[0]) != w.Controller.TagValue() {
				viols = append(viols, harness.Viol{Signature: "C01:tag", Message: fmt.Sprintf("[%s] %s: tags %v, controller %s has tag %q\n%s", v, k, tags, w.Controller.Name, w.Controller.TagValue(), p.Describe())})
			}
			if boolOf(g.Raw["deprecated"]) != w.Method.Deprecated {
				viols = append(viols, harness.Viol{Signature: "C01:deprecated", Message: fmt.Sprintf("[%s] %s: deprecated=%v, method says %v", v, k, g.Raw["deprecated"], w.Method.Deprecated)})
			}
		}
	}
	return viols
}

func c01Classify(p *projgen.Project) harness.Class {
	files := map[string]bool{}
	hidden, visible, decoys, noise := 0, 0, 0, false
	multiFile := false
	for _, c := range p.Controllers {
		cf := map[string]bool{}
		for _, m := range c.Methods {
			if m.Decoy != "" {
				decoys++
				continue
			}
			cf[m.File] = true
			files[c.Pkg+"/"+m.File] = true
			if m.Hidden {
				hidden++
			} else {
				visible++
			}
			if m.Route != "" && (len(m.Route) > 1 && (m.Route[0] != '/' || containsDouble(m.Route))) {
				noise = true
			}
		}
		if len(cf) >= 2 {
			multiFile = true
		}
	}
	c := harness.Class{}
	if len(p.Controllers) >= 2 {
		c.Labels = append(c.Labels, "controllers>=2")
	}
	if multiFile {
		c.Labels = append(c.Labels, "controller-spread-over-files")
	}
	if hidden > 0 {
		c.Labels = append(c.Labels, "has-hidden")
	}
	if decoys > 0 {
		c.Labels = append(c.Labels, "has-decoys")
	}
	if noise {
		c.Labels = append(c.Labels, "slash-noise")
	}
	c.NonTrivial = (len(p.Controllers) >= 2 || multiFile) && hidden > 0 && visible > 0
	return c
}

func containsDouble(s string) bool {
	for i := 0; i+1 < len(s); i++ {
		if s[i] == '/' && s[i+1] == '/' {
			return true
		}
	}
	return false
}

func TestC01(t *testing.T) {
	harness.Run(t, harness.Prop[*projgen.Project]{
		ID:       "C01",
		Gen:      func(t *rapid.T) *projgen.Project { return projgen.GenProject(t, projgen.CoreProfile) },
		Check:    c01Check,
		Classify: c01Classify,
		Canon:    projectCanon,
		Sample:   projectSample,
		Rule: "rapid draws a project MODEL (1-3 controllers in 1-3 packages, each with 0-5 methods spread over the controller's file, a sibling file and a file without controllers; " +
			"verbs over the five supported ones; route templates with {params}, doubled slashes, prefixes with trailing slash, shared prefixes, no prefix; @Hidden/@Deprecated/" +
			"@Security/@Tag drawn independently; decoy methods lacking @Method, @Route, a doc comment, or hanging on a non-controller struct; random annotation order and layout noise); " +
			"the model is rendered to a Go module + gleece config and the REAL pipeline and both emitters are run in-process. Oracle = the model: paths x verbs of each document must equal the " +
			"non-hidden annotated routes under the statement's normalisation (both inclusions), with operationId = method name, tags = [controller tag], deprecated flag. " +
			"Non-trivial = >=2 controllers or a controller whose methods live in >=2 files, and at least one hidden and one visible route; distinct = canonical JSON of the model.",
		Assume: []string{
			"method names are unique per project (operationIds must be unique) and same-verb routes do not overlap; templates that differ only in parameter names are not generated (OpenAPI treats them as one path)",
			"controller type names are unique per project (same-named controllers in two packages are finding F-C01-1, replayed as a witness)",
			"in-process runs use the same entry points as the CLI (LoadGleeceConfig, pipeline.Run, swagen.GenerateSpec)",
		},
		Floors: map[string]float64{"nontrivial": 0.3, "accepted": 0.95, "has-hidden": 0.4, "has-decoys": 0.2},
	})
}
