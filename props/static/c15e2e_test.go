package static

import (
	"fmt"
	"os"
	"sort"
	"strings"
	"testing"

	"pgregory.net/rapid"

	"verif/internal/ev"
	"verif/internal/harness"
	"verif/internal/lab"
	"verif/internal/projgen"
)

// C15 (end-to-end half) — the `route-conflict` warnings of ApiValidator name exactly the
// methods whose FULL templates (controller prefix + method route) overlap on the same verb.

type c15eRoute struct {
	Verb string   `json:"verb"`
	Segs []string `json:"segs"` // method-level segments: literals or "{}" placeholders
}

type c15eCtrl struct {
	Prefix []string    `json:"prefix"`
	Routes []c15eRoute `json:"routes"`
}

type c15eModel struct {
	Ctrls []c15eCtrl `json:"ctrls"`
}

func c15eGen(t *rapid.T) c15eModel {
	seg := rapid.SampledFrom([]string{"a", "b", "c", "{}", "{}"})
	var m c15eModel
	nc := rapid.IntRange(1, 3).Draw(t, "nCtrls")
	for ci := 0; ci < nc; ci++ {
		c := c15eCtrl{Prefix: rapid.SliceOfN(rapid.SampledFrom([]string{"a", "b", "{}"}), 0, 2).Draw(t, "prefix")}
		nr := rapid.IntRange(1, 3).Draw(t, "nRoutes")
		for ri := 0; ri < nr; ri++ {
			c.Routes = append(c.Routes, c15eRoute{Verb: rapid.SampledFrom([]string{"GET", "POST"}).Draw(t, "verb"), Segs: rapid.SliceOfN(seg, 1, 3).Draw(t, "segs")})
		}
		m.Ctrls = append(m.Ctrls, c)
	}
	return m
}

func (m c15eModel) build() ([]lkCtrl, map[string][]string, map[string]string) {
	var ctrls []lkCtrl
	full := map[string][]string{} // method name -> full segment list ("{}" for params)
	verbs := map[string]string{}
	idx := 0
	for ci, c := range m.Ctrls {
		lc := lkCtrl{Name: fmt.Sprintf("Ctl%dController", ci), File: fmt.Sprintf("ctrl%d.go", ci)}
		var pfx []string
		pos := 0
		var prefixParams []string
		for _, s := range c.Prefix {
			if s == "{}" {
				n := fmt.Sprintf("p%d", pos)
				pfx = append(pfx, "{"+n+"}")
				prefixParams = append(prefixParams, n)
			} else {
				pfx = append(pfx, s)
			}
			pos++
		}
		if len(pfx) > 0 {
			lc.Prefix = "/" + strings.Join(pfx, "/")
		}
		for _, r := range c.Routes {
			lr := lkRoute{Name: fmt.Sprintf("Op%d", idx), Verb: r.Verb, File: lc.File, Results: []string{"error"}}
			idx++
			var segs []string
			p := pos
			for _, n := range prefixParams { // every method binds the prefix's parameters
				lr.Params = append(lr.Params, lkParam{n, "string"})
				lr.Anns = append(lr.Anns, lkAnn{Kind: "Path", Ref: n})
			}
			for _, s := range r.Segs {
				if s == "{}" {
					n := fmt.Sprintf("p%d", p)
					segs = append(segs, "{"+n+"}")
					lr.Params = append(lr.Params, lkParam{n, "string"})
					lr.Anns = append(lr.Anns, lkAnn{Kind: "Path", Ref: n})
				} else {
					segs = append(segs, s)
				}
				p++
			}
			lr.Route = "/" + strings.Join(segs, "/")
			lc.Routes = append(lc.Routes, lr)
			full[lr.Name] = append(append([]string{}, c.Prefix...), r.Segs...)
			verbs[lr.Name] = r.Verb
		}
		ctrls = append(ctrls, lc)
	}
	return ctrls, full, verbs
}

func c15eOverlap(a, b []string) bool {
	if len(a) != len(b) {
		return false
	}
	for i := range a {
		if a[i] != b[i] && a[i] != "{}" && b[i] != "{}" {
			return false
		}
	}
	return true
}

func c15eCheck(m c15eModel, rec *ev.Recorder) []harness.Viol {
	ctrls, full, verbs := m.build()
	p := lkProject(ctrls, nil)
	dir, err := lab.Scratch("c15e-")
	if err != nil {
		rec.Inconclusive(err.Error())
		return nil
	}
	defer os.RemoveAll(dir)
	if _, err := p.WriteTo(dir, projgen.RenderOptions{}, lab.RepoRoot); err != nil {
		rec.Inconclusive(err.Error())
		return nil
	}
	res := lab.RunInProcess(dir, lab.Want{Diags: true})
	if res.Panic != "" || res.ValidateErr != nil || res.ConfigErr != nil {
		rec.Label("not-analysed", 1)
		return nil
	}
	flagged := map[string]bool{}
	for _, d := range flattenDiags(res.Diags) {
		if d.D.Code == "route-conflict" && d.Kind == "Receiver" {
			flagged[d.Entity] = true
		}
	}
	want := map[string]bool{}
	names := sortedKeys(full)
	for _, a := range names {
		for _, b := range names {
			if a != b && verbs[a] == verbs[b] && c15eOverlap(full[a], full[b]) {
				want[a] = true
			}
		}
	}
	var viols []harness.Viol
	desc := lkDescribe(ctrls)
	var missing, spurious []string
	for _, n := range names {
		switch {
		case want[n] && !flagged[n]:
			missing = append(missing, n)
		case !want[n] && flagged[n]:
			spurious = append(spurious, n)
		}
	}
	sort.Strings(missing)
	sort.Strings(spurious)
	if len(spurious) > 0 {
		viols = append(viols, harness.Viol{Signature: "C15:e2e:warning-on-non-overlapping-route",
			Message: fmt.Sprintf("route-conflict warnings on %v although their full templates overlap no other same-verb route\n%s", spurious, desc)})
	}
	if len(missing) > 0 {
		viols = append(viols, harness.Viol{Signature: "C15:e2e:overlapping-route-not-warned",
			Message: fmt.Sprintf("%v overlap another same-verb route (full templates) but received no route-conflict warning\n%s", missing, desc)})
	}
	if len(want) > 0 {
		rec.Label("has-overlap", 1)
	}
	return viols
}

func c15eClassify(m c15eModel) harness.Class {
	_, full, verbs := m.build()
	names := sortedKeys(full)
	cross, within := false, false
	owner := map[string]int{}
	idx := 0
	for ci, c := range m.Ctrls {
		for range c.Routes {
			owner[fmt.Sprintf("Op%d", idx)] = ci
			idx++
		}
	}
	for _, a := range names {
		for _, b := range names {
			if a < b && verbs[a] == verbs[b] && c15eOverlap(full[a], full[b]) {
				if owner[a] != owner[b] {
					cross = true
				} else {
					within = true
				}
			}
		}
	}
	c := harness.Class{}
	if cross {
		c.Labels = append(c.Labels, "overlap-across-controllers")
	}
	if within {
		c.Labels = append(c.Labels, "overlap-within-controller")
	}
	samePrefixless := false
	for i := range m.Ctrls {
		for j := range m.Ctrls {
			if i < j && strings.Join(m.Ctrls[i].Prefix, "/") != strings.Join(m.Ctrls[j].Prefix, "/") {
				samePrefixless = true
			}
		}
	}
	if samePrefixless {
		c.Labels = append(c.Labels, "controllers-with-different-prefixes")
	}
	c.NonTrivial = cross || (samePrefixless && len(names) >= 3)
	return c
}

func TestC15E2E(t *testing.T) {
	harness.Run(t, harness.Prop[c15eModel]{
		ID:       "C15",
		Gen:      c15eGen,
		Check:    c15eCheck,
		Classify: c15eClassify,
		Canon:    func(m c15eModel) string { return jsonStr(m) },
		Sample: func(m c15eModel) any {
			ctrls, _, _ := m.build()
			return strings.Split(strings.TrimSpace(lkDescribe(ctrls)), "\n")
		},
		Rule: "end-to-end half: rapid draws 1-3 controllers with prefixes of 0-2 segments over {a, b, {param}} and 1-3 routes each over {a, b, c, {param}} x {GET, POST}; the project is rendered " +
			"(every URL parameter bound by @Path) and analysed by the real pipeline; oracle = brute-force overlap of FULL templates (controller prefix + method route) per verb: the set of methods " +
			"carrying a `route-conflict` warning must equal the set of methods that overlap another same-verb route. Non-trivial = an overlap across two controllers, or controllers with different " +
			"prefixes and >=3 routes; distinct = canonical JSON.",
		Floors: map[string]float64{"nontrivial": 0.3},
	})
}
