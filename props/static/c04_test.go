package static

import (
	"fmt"
	"reflect"
	"testing"

	"pgregory.net/rapid"

	"verif/internal/ev"
	"verif/internal/harness"
	"verif/internal/lab"
	"verif/internal/projgen"
)

// C04 (static half) — documented security equals the model's effective security; schemes are
// declared as configured; undeclared scheme => no spec; enforce flag leaves no open route.

func expectedSecurityJSON(secs []projgen.Sec) []any {
	out := []any{}
	for _, s := range secs {
		scopes := []any{}
		for _, sc := range s.Scopes {
			scopes = append(scopes, sc)
		}
		out = append(out, map[string]any{s.Scheme: scopes})
	}
	return out
}

func declared(p *projgen.Project, name string) bool {
	for _, s := range p.Config.Schemes {
		if s.Name == name {
			return true
		}
	}
	return false
}

func expectedSchemeDoc(s projgen.Scheme) map[string]any {
	m := map[string]any{"type": s.Type, "description": s.Description}
	if s.In != "" {
		m["in"] = s.In
	}
	if s.FieldName != "" {
		m["name"] = s.FieldName
	}
	if s.HTTPScheme != "" {
		m["scheme"] = s.HTTPScheme
	}
	if s.OpenIDURL != "" {
		m["openIdConnectUrl"] = s.OpenIDURL
	}
	if s.Flows != nil {
		m["flows"] = s.Flows
	}
	return m
}

func c04Facts(p *projgen.Project) (usesUndeclared bool, openRoutes int, levels map[string]bool) {
	levels = map[string]bool{}
	for _, c := range p.Controllers {
		for _, m := range c.RealMethods() {
			eff := p.EffectiveSecurity(c, m)
			if len(eff) == 0 {
				openRoutes++
			}
			switch {
			case len(m.Security) > 0:
				levels["method"] = true
			case len(c.Security) > 0:
				levels["controller"] = true
			case p.Config.DefaultSec != nil:
				levels["default"] = true
			default:
				levels["none"] = true
			}
			for _, s := range eff {
				// only a documented (visible) route forces the scheme into the document
				if !declared(p, s.Scheme) && !m.Hidden {
					usesUndeclared = true
				}
			}
		}
	}
	return
}

func c04Check(p *projgen.Project, rec *ev.Recorder) []harness.Viol {
	res, _, err := runProject(p, lab.Want{Versions: bothVersions})
	if err != nil {
		rec.Inconclusive("scratch project: " + err.Error())
		return nil
	}
	if res.Panic != "" {
		rec.Label("gleece-panicked (reported under C14)", 1)
		return nil
	}
	var viols []harness.Viol
	usesUndeclared, openRoutes, _ := c04Facts(p)

	// (d) enforce flag: accepted iff every route has a non-empty effective security
	if p.Config.Enforce {
		switch {
		case openRoutes > 0 && res.Accepted():
			viols = append(viols, harness.Viol{Signature: "C04:enforce:open-route-accepted",
				Message: fmt.Sprintf("enforceSecurityOnAllRoutes=true, %d route(s) have no effective security, yet the project was accepted\n%s", openRoutes, p.Describe())})
		case openRoutes == 0 && !res.Accepted():
			viols = append(viols, harness.Viol{Signature: "C04:enforce:secured-project-rejected",
				Message: fmt.Sprintf("enforceSecurityOnAllRoutes=true and every route is secured, yet the project was rejected: %s\n%s", fmtErr(res.RunErr), p.Describe())})
		}
		if openRoutes > 0 {
			rec.Label("enforce-with-open-route", 1)
			return viols
		}
	}
	if !res.Accepted() {
		rec.Label("rejected", 1)
		rec.SetExtra("last_rejection", fmtErr(res.RunErr)+fmtErr(res.ConfigErr))
		return viols
	}
	rec.Label("accepted", 1)

	for _, v := range bothVersions {
		// (c) undeclared scheme => no spec
		if usesUndeclared {
			rec.Label("undeclared-scheme", 1)
			if res.SpecErr[v] == nil {
				viols = append(viols, harness.Viol{Signature: "C04:undeclared-scheme-documented:" + v,
					Message: fmt.Sprintf("a visible route's effective security names scheme 'ghostAuth' which the configuration does not declare, yet a %s spec was produced\n%s", v, p.Describe())})
			}
			continue
		}
		if res.SpecErr[v] != nil {
			rec.Label("accepted-but-no-spec:"+v, 1)
			rec.SetExtra("last_spec_error", fmtErr(res.SpecErr[v]))
			continue
		}
		doc, err := parseSpec(res.Spec[v])
		if err != nil {
			viols = append(viols, harness.Viol{Signature: "C04:spec-not-json:" + v, Message: err.Error()})
			continue
		}
		comps, _ := doc["components"].(map[string]any)
		schemes, _ := comps["securitySchemes"].(map[string]any)
		// (b) securitySchemes equals the configuration entry by entry
		want := map[string]any{}
		for _, s := range p.Config.Schemes {
			want[s.Name] = expectedSchemeDoc(s)
		}
		if len(want) > 0 || len(schemes) > 0 {
			if !reflect.DeepEqual(normaliseJSON(schemes), normaliseJSON(want)) {
				viols = append(viols, harness.Viol{Signature: "C04:security-schemes-differ-from-config:" + v,
					Message: fmt.Sprintf("components.securitySchemes = %s, configuration says %s", jsonStr(schemes), jsonStr(want))})
			}
		}
		// (a) per operation
		got := specOps(doc)
		for _, op := range p.ExpectedOps() {
			if op.Method.Hidden {
				continue
			}
			g, ok := got[op.Verb+" "+op.Path]
			if !ok {
				continue // C01's business
			}
			wantSec := expectedSecurityJSON(p.EffectiveSecurity(op.Controller, op.Method))
			gotSec, _ := g.Raw["security"].([]any)
			if gotSec == nil {
				gotSec = []any{}
			}
			if !reflect.DeepEqual(normaliseJSON(gotSec), normaliseJSON(wantSec)) {
				viols = append(viols, harness.Viol{Signature: "C04:operation-security:" + v,
					Message: fmt.Sprintf("%s %s (%s.%s): security %s, effective security is %s\n%s", op.Verb, op.Path, op.Controller.Name, op.Method.Name, jsonStr(gotSec), jsonStr(wantSec), p.Describe())})
			}
			for _, alt := range gotSec {
				for name := range alt.(map[string]any) {
					if _, ok := schemes[name]; !ok {
						viols = append(viols, harness.Viol{Signature: "C04:scheme-not-declared-in-components:" + v,
							Message: fmt.Sprintf("%s %s names scheme %q which components.securitySchemes lacks", op.Verb, op.Path, name)})
					}
				}
			}
			if p.Config.Enforce && len(gotSec) == 0 {
				viols = append(viols, harness.Viol{Signature: "C04:enforce:operation-without-security:" + v, Message: fmt.Sprintf("%s %s documented without security under enforce=true", op.Verb, op.Path)})
			}
		}
	}
	return viols
}

// normaliseJSON round-trips through encoding/json so that []string / []any and numeric types compare equal.
func normaliseJSON(v any) any {
	var out any
	if err := jsonUnmarshalString(jsonStr(v), &out); err != nil {
		return v
	}
	return out
}

func c04Classify(p *projgen.Project) harness.Class {
	undeclared, open, levels := c04Facts(p)
	c := harness.Class{}
	if len(levels) >= 2 {
		c.Labels = append(c.Labels, "mixes-inheritance-levels")
	}
	if p.Config.Enforce {
		c.Labels = append(c.Labels, "enforce-on")
		if open == 0 && (levels["controller"] || levels["default"]) {
			c.Labels = append(c.Labels, "enforce-satisfied-by-inheritance")
		}
	}
	if undeclared {
		c.Labels = append(c.Labels, "names-undeclared-scheme")
	}
	c.NonTrivial = len(levels) >= 2 || undeclared || (p.Config.Enforce && (levels["controller"] || levels["default"]))
	return c
}

func TestC04(t *testing.T) {
	harness.Run(t, harness.Prop[*projgen.Project]{
		ID:       "C04",
		Gen:      func(t *rapid.T) *projgen.Project { return projgen.GenProject(t, projgen.SecurityProfile) },
		Check:    c04Check,
		Classify: c04Classify,
		Canon:    projectCanon,
		Sample:   projectSample,
		Rule: "static half: rapid draws projects whose three security levels (method / controller / configured default) are independently absent, single, multiple or repeating a scheme, " +
			"with scopes absent / empty / several; the scheme catalogue of the configuration is drawn from apiKey(header|query|cookie), http(basic|bearer), oauth2(implicit|code|client) and " +
			"openIdConnect; enforceSecurityOnAllRoutes on/off; 1 in 8 projects may name an undeclared scheme. Oracle (model): per documented operation `security` = effective alternatives " +
			"(same schemes, scopes, order) in 3.0 and 3.1; every named scheme declared; components.securitySchemes equals the configuration entry by entry; undeclared scheme => no spec; " +
			"enforce=true => accepted iff every route (hidden ones included) has a non-empty effective security. Non-trivial = >=2 inheritance levels in one project, or an undeclared " +
			"scheme, or enforce=true satisfied through controller/default security; distinct = canonical JSON of the model.",
		Assume: []string{"the enforced half (what the generated router consults) is decided by the router lab (C03/C04 dynamic part)"},
		Floors: map[string]float64{"nontrivial": 0.4, "enforce-on": 0.3, "names-undeclared-scheme": 0.02},
	})
}
