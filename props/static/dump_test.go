package static

import (
	"encoding/json"
	"fmt"
	"os"
	"testing"

	"verif/internal/lab"
	"verif/internal/projgen"
)

// TestDump is a development aid: VERIF_DUMP=<replay file> [VERIF_DUMP_DIR=<dir>] go test -run TestDump
// re-runs the project of a replay file and writes both specs, the gin routes and the sources.
func TestDump(t *testing.T) {
	f := os.Getenv("VERIF_DUMP")
	if f == "" {
		t.Skip("development aid")
	}
	b, _ := os.ReadFile(f)
	var rf struct {
		Model json.RawMessage `json:"model"`
	}
	_ = json.Unmarshal(b, &rf)
	var p projgen.Project
	var wrapped struct {
		Project *projgen.Project `json:"project"`
	}
	if json.Unmarshal(rf.Model, &wrapped) == nil && wrapped.Project != nil {
		p = *wrapped.Project
	} else {
		_ = json.Unmarshal(rf.Model, &p)
	}
	dir := os.Getenv("VERIF_DUMP_DIR")
	if dir == "" {
		dir, _ = os.MkdirTemp("", "dump-")
	}
	os.MkdirAll(dir, 0o755)
	if _, err := p.WriteTo(dir, projgen.RenderOptions{}, lab.RepoRoot); err != nil {
		t.Fatal(err)
	}
	res := lab.RunInProcess(dir, lab.Want{Versions: bothVersions, Engines: []string{"gin"}, Diags: true})
	fmt.Printf("dir=%s configErr=%v runErr=%v specErr=%v routesErr=%v panic=%q\n", dir, res.ConfigErr, res.RunErr, res.SpecErr, res.RoutesErr, res.Panic)
	os.WriteFile(dir+"/spec30.json", res.Spec["3.0.0"], 0o644)
	os.WriteFile(dir+"/spec31.json", res.Spec["3.1.0"], 0o644)
}
