package static

import (
	"encoding/json"
	"fmt"
	"os"
	"sort"
	"strings"

	"verif/internal/lab"
	"verif/internal/projgen"
)

// runProject materialises the model in a fresh scratch directory, runs gleece in-process
// through the CLI's own entry points and removes the directory again.
func runProject(p *projgen.Project, want lab.Want) (*lab.Result, *projgen.Layout, error) {
	dir, err := lab.Scratch("proj-")
	if err != nil {
		return nil, nil, err
	}
	defer os.RemoveAll(dir)
	lay, err := p.WriteTo(dir, projgen.RenderOptions{}, lab.RepoRoot)
	if err != nil {
		return nil, nil, err
	}
	return lab.RunInProcess(dir, want), lay, nil
}

var bothVersions = []string{"3.0.0", "3.1.0"}

type opDoc struct {
	Verb, Path string
	Raw        map[string]any
}

func parseSpec(b []byte) (map[string]any, error) {
	var doc map[string]any
	if err := json.Unmarshal(b, &doc); err != nil {
		return nil, err
	}
	return doc, nil
}

var httpVerbs = map[string]bool{"get": true, "post": true, "put": true, "delete": true, "patch": true, "head": true, "options": true, "trace": true}

// specOps flattens paths.* to (VERB, path) -> operation object.
func specOps(doc map[string]any) map[string]opDoc {
	out := map[string]opDoc{}
	paths, _ := doc["paths"].(map[string]any)
	for path, item := range paths {
		im, _ := item.(map[string]any)
		for verb, op := range im {
			if !httpVerbs[verb] {
				continue
			}
			om, _ := op.(map[string]any)
			out[strings.ToUpper(verb)+" "+path] = opDoc{Verb: strings.ToUpper(verb), Path: path, Raw: om}
		}
	}
	return out
}

func sortedKeys[V any](m map[string]V) []string {
	ks := make([]string, 0, len(m))
	for k := range m {
		ks = append(ks, k)
	}
	sort.Strings(ks)
	return ks
}

func projectCanon(p *projgen.Project) string {
	b, _ := json.Marshal(p)
	return string(b)
}

func projectSample(p *projgen.Project) any {
	files, _ := p.Render(projgen.RenderOptions{})
	// show the controller/method sources only, trimmed
	out := map[string]any{"summary": strings.Split(strings.TrimSpace(p.Describe()), "\n")}
	for _, name := range sortedKeys(files) {
		if strings.Contains(files[name], "@Method(") {
			lines := strings.Split(files[name], "\n")
			if len(lines) > 40 {
				lines = append(lines[:40], "…")
			}
			out["file:"+name] = lines
			break
		}
	}
	return out
}

func jsonStr(v any) string {
	b, _ := json.Marshal(v)
	return string(b)
}

func boolOf(v any) bool {
	b, _ := v.(bool)
	return b
}

func fmtErr(err error) string {
	if err == nil {
		return "<nil>"
	}
	s := err.Error()
	if len(s) > 400 {
		s = s[:400] + "…"
	}
	return s
}

var _ = fmt.Sprintf

func jsonUnmarshalString(s string, out any) error { return json.Unmarshal([]byte(s), out) }
