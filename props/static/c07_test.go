package static

import (
	"fmt"
	"sort"
	"strings"
	"testing"

	"pgregory.net/rapid"

	"verif/internal/ev"
	"verif/internal/harness"
	"verif/internal/lab"
	"verif/internal/projgen"
)

// C07 — component schemas mirror Go declarations, independent of how a type is used.

type c07Model struct {
	Project *projgen.Project `json:"project"`
	// Metamorphic step: derive P' from P by adding a validator tag at one usage site of a named
	// type and/or a new route that uses it; pre-existing components must not change.
	TagField   int    `json:"tagField"`   // which field-usage of a named type gets an extra tag
	Tag        string `json:"tag"`        // the validator added
	TagAll     bool   `json:"tagAll"`     // tag every usage site (fields and parameters), rotating through the tag list from Tag on
	AddRoute   bool   `json:"addRoute"`   // add a route returning the same type
	TargetPick int    `json:"targetPick"` // which reachable named type the new route uses
}

var c07Profile = func() projgen.Profile {
	pf := projgen.FullProfile
	pf.Decoys = false
	pf.MaxControllers, pf.MaxMethods = 2, 4
	return pf
}()

var c07Tags = []string{"oneof=active", "oneof=1 2", "enum=a|b", "required", "min=1", "max=3", "email", "len=4", "gt=0",
	// go-playground's dive: the rules after it are about a collection's elements
	"dive,oneof=active", "dive,oneof=1 2", "dive,enum=a|b", "dive,required", "dive,min=1", "dive,gt=0", "required,dive,len=4"}

func c07Gen(t *rapid.T) c07Model {
	return c07Model{
		Project:    projgen.GenProject(t, c07Profile),
		TagField:   rapid.IntRange(0, 30).Draw(t, "tagField"),
		Tag:        rapid.SampledFrom(c07Tags).Draw(t, "tag"),
		TagAll:     rapid.IntRange(0, 2).Draw(t, "tagAll") > 0,
		AddRoute:   rapid.Bool().Draw(t, "addRoute"),
		TargetPick: rapid.IntRange(0, 30).Draw(t, "targetPick"),
	}
}

func c07ExpectedEnumValues(d *projgen.TypeDecl) []string {
	var out []string
	for _, c := range d.Consts {
		v := c.Value
		if strings.HasPrefix(v, `"`) {
			v = strings.Trim(v, `"`)
		}
		out = append(out, v)
	}
	sort.Strings(out)
	return out
}

func c07CheckComponents(p *projgen.Project, doc map[string]any, v string, add func(sig, format string, a ...any)) {
	schemas := asMap(asMap(doc["components"])["schemas"])
	reach := p.Reachable()
	want := projgen.SortedTypeNames(reach)
	if p.AnyPlainError() {
		want = append(want, "Rfc7807Error")
		sort.Strings(want)
	}
	got := sortedKeys(schemas)
	if !sameStrings(got, want) {
		var missing, extra []string
		ws, gs := map[string]bool{}, map[string]bool{}
		for _, w := range want {
			ws[w] = true
		}
		for _, g := range got {
			gs[g] = true
			if !ws[g] {
				extra = append(extra, g)
			}
		}
		for _, w := range want {
			if !gs[w] {
				missing = append(missing, w)
			}
		}
		if len(missing) > 0 {
			add("component-missing", "components.schemas lacks %v (reachable from routes); has %v", missing, got)
		}
		if len(extra) > 0 {
			add("component-unreachable", "components.schemas has %v which no route reaches; reachable: %v", extra, want)
		}
	}
	for name, d := range reach {
		s := asMap(schemas[name])
		if s == nil {
			continue
		}
		switch d.Kind {
		case "struct":
			body := s
			var embedded []string
			if all := asSlice(s["allOf"]); all != nil {
				body = nil
				for _, part := range all {
					pm := asMap(part)
					if ref, ok := pm["$ref"].(string); ok {
						embedded = append(embedded, strings.TrimPrefix(ref, "#/components/schemas/"))
					} else if body == nil {
						body = pm
					}
				}
			}
			var wantEmbedded, wantProps, wantReq []string
			for _, f := range d.Fields {
				if f.Raw != "" {
					continue
				}
				if f.Embedded {
					wantEmbedded = append(wantEmbedded, f.Type.Base().Name)
					continue
				}
				jn := f.JSONName()
				if jn == "" {
					continue
				}
				wantProps = append(wantProps, jn)
				if projgen.FieldRequired(f) {
					wantReq = append(wantReq, jn)
				}
				if d := schemaMismatch(asMap(asMap(body["properties"])[jn]), f.Type); d != "" {
					add("struct-property-schema", "%s.%s (%s): %s", name, jn, f.Name, d)
				}
			}
			sort.Strings(wantEmbedded)
			sort.Strings(embedded)
			sort.Strings(wantProps)
			sort.Strings(wantReq)
			if !sameStrings(embedded, wantEmbedded) {
				add("struct-embedding", "%s: allOf references %v, the struct embeds %v", name, embedded, wantEmbedded)
			}
			if body == nil {
				add("struct-body-missing", "%s has no object schema part: %s", name, jsonStr(s))
				continue
			}
			if gotProps := sortedKeys(asMap(body["properties"])); !sameStrings(gotProps, wantProps) {
				// classify: are the surplus properties exactly fields that are not JSON-visible?
				invisible := map[string]bool{}
				for _, f := range d.Fields {
					if f.Raw == "" && !f.Embedded && f.JSONName() == "" {
						if f.JSON == "-" {
							invisible["-"] = true
						} else {
							invisible[f.Name] = true
						}
					}
				}
				wantSet := map[string]bool{}
				for _, w := range wantProps {
					wantSet[w] = true
				}
				onlyInvisibleSurplus := len(invisible) > 0
				gotSet := map[string]bool{}
				for _, g := range gotProps {
					gotSet[g] = true
					if !wantSet[g] && !invisible[g] {
						onlyInvisibleSurplus = false
					}
				}
				for _, w := range wantProps {
					if !gotSet[w] {
						onlyInvisibleSurplus = false
					}
				}
				sig := "struct-properties"
				if onlyInvisibleSurplus {
					sig = "non-json-visible-field-documented"
				}
				add(sig, "%s has properties %v, the JSON-visible fields are %v", name, gotProps, wantProps)
			}
			if !sameStrings(stringSet(body["required"]), wantReq) {
				add("struct-required", "%s requires %v, fields validated as required are %v", name, stringSet(body["required"]), wantReq)
			}
		case "enum":
			wt := map[string]string{"string": "string", "float64": "number", "float32": "number", "bool": "boolean"}[d.Base]
			if wt == "" {
				wt = "integer"
			}
			if schemaType(s) != wt {
				add("enum-type", "%s has type %v, the Go base type is %s", name, s["type"], d.Base)
			}
			// as value sets: two constants may share a value, and the statement does not say whether it is then listed once or twice
			if !sameStrings(dedupe(stringSet(s["enum"])), dedupe(c07ExpectedEnumValues(d))) {
				add("enum-values", "%s lists %v, the constants declared with that type are %v", name, stringSet(s["enum"]), c07ExpectedEnumValues(d))
			}
		case "alias":
			if dm := schemaMismatch(s, projgen.Prim(d.Base)); dm != "" {
				add("alias-type", "%s: %s", name, dm)
			}
		}
	}
}

// c07Derive builds P' from P: one more validator at a usage site and/or one more route.
func c07Derive(m c07Model) (*projgen.Project, string) {
	b := []byte(projectCanon(m.Project))
	var p projgen.Project
	_ = jsonUnmarshalString(string(b), &p)
	what := []string{}
	// usage sites: struct fields whose type is (a pointer/slice of) a named type
	type site struct {
		d *projgen.TypeDecl
		i int
	}
	var sites []site
	reach := p.Reachable()
	for _, name := range projgen.SortedTypeNames(reach) {
		d := reach[name]
		for i, f := range d.Fields {
			// directly, or through pointers and slices (maps keep their own inline schema)
			if inner := namedThrough(f.Type); f.Raw == "" && !f.Embedded && inner != nil {
				sites = append(sites, site{d, i})
			}
		}
	}
	// collection-typed sites get the element rules (dive ...), the others the plain ones; both rotate from m.Tag on
	var plainTags, diveTags []string
	for _, tg := range c07Tags {
		if strings.Contains(tg, "dive") {
			diveTags = append(diveTags, tg)
		} else {
			plainTags = append(plainTags, tg)
		}
	}
	tagAt := func(k int, typ projgen.TypeRef) string {
		base := 0
		for i, tg := range c07Tags {
			if tg == m.Tag {
				base = i
			}
		}
		hasSlice := false
		for t := typ; t.Kind == "ptr" || t.Kind == "slice"; t = *t.Elem {
			if t.Kind == "slice" {
				hasSlice = true
			}
			if t.Elem == nil {
				break
			}
		}
		if hasSlice {
			return diveTags[(base+k)%len(diveTags)]
		}
		return plainTags[(base+k)%len(plainTags)]
	}
	addTag := func(s site, tag string) {
		f := &s.d.Fields[s.i]
		if f.Validate == "" {
			f.Validate = tag
		} else {
			f.Validate += "," + tag
		}
		what = append(what, fmt.Sprintf("tag %q added to %s.%s (type %s)", tag, s.d.Name, f.Name, namedThrough(f.Type).Name))
	}
	if m.TagAll {
		for k, s := range sites {
			addTag(s, tagAt(k, s.d.Fields[s.i].Type))
		}
		k := len(sites)
		for _, c := range p.Controllers {
			for _, mt := range c.Methods {
				for pi := range mt.Params {
					prm := &mt.Params[pi]
					if prm.In == "body" || prm.In == "context" || namedThrough(prm.Type) == nil || mt.RawSig != "" || mt.RawDoc != nil {
						continue
					}
					tag := tagAt(k, prm.Type)
					k++
					if prm.Validator == "" {
						prm.Validator = tag
					} else {
						prm.Validator += "," + tag
					}
					what = append(what, fmt.Sprintf("tag %q added to parameter %s of %s (type %s)", tag, prm.Name, mt.Name, namedThrough(prm.Type).Name))
				}
			}
		}
	} else if len(sites) > 0 {
		addTag(sites[m.TagField%len(sites)], m.Tag)
	}
	if m.AddRoute && len(reach) > 0 && len(p.Controllers) > 0 {
		names := projgen.SortedTypeNames(reach)
		d := reach[names[m.TargetPick%len(names)]]
		c := p.Controllers[0]
		r := projgen.Named(d.Pkg, d.Name)
		nm := &projgen.Method{Name: "ExtraUse999", File: c.File, Verb: "GET", Route: "/extra-use-999", Ret: &r}
		if d.EmbedsError {
			nm.Ret = nil
		}
		c.Methods = append(c.Methods, nm)
		what = append(what, fmt.Sprintf("route GET /extra-use-999 returning %s added", d.Name))
	}
	return &p, strings.Join(what, "; ")
}

func c07Check(m c07Model, rec *ev.Recorder) []harness.Viol {
	p := m.Project
	res, _, err := runProject(p, lab.Want{Versions: bothVersions})
	if err != nil {
		rec.Inconclusive("scratch project: " + err.Error())
		return nil
	}
	if res.Panic != "" {
		rec.Label("gleece-panicked (reported under C14)", 1)
		return nil
	}
	if !res.Accepted() {
		rec.Label("rejected", 1)
		rec.SetExtra("last_rejection", fmtErr(res.RunErr)+fmtErr(res.ConfigErr))
		return nil
	}
	rec.Label("accepted", 1)
	var viols []harness.Viol
	docs := map[string]map[string]any{}
	for _, v := range bothVersions {
		if res.SpecErr[v] != nil {
			rec.Label("accepted-but-no-spec:"+v, 1)
			rec.SetExtra("last_spec_error", fmtErr(res.SpecErr[v]))
			continue
		}
		doc, err := parseSpec(res.Spec[v])
		if err != nil {
			viols = append(viols, harness.Viol{Signature: "C07:spec-not-json:" + v, Message: err.Error()})
			continue
		}
		docs[v] = doc
		add := func(sig, format string, a ...any) {
			viols = append(viols, harness.Viol{Signature: "C07:" + sig + ":" + v, Message: "[" + v + "] " + fmt.Sprintf(format, a...) + "\n" + typesDescribe(p)})
		}
		c07CheckComponents(p, doc, v, add)
	}
	// ---- metamorphic non-interference
	p2, what := c07Derive(m)
	if what == "" || len(docs) == 0 {
		return viols
	}
	res2, _, err := runProject(p2, lab.Want{Versions: bothVersions})
	if err != nil || !res2.Accepted() {
		rec.Label("derived-project-not-accepted", 1)
		return viols
	}
	rec.Label("metamorphic-pair", 1)
	for _, v := range bothVersions {
		if docs[v] == nil || res2.SpecErr[v] != nil {
			continue
		}
		doc2, err := parseSpec(res2.Spec[v])
		if err != nil {
			continue
		}
		s1 := asMap(asMap(docs[v]["components"])["schemas"])
		s2 := asMap(asMap(doc2["components"])["schemas"])
		for _, name := range sortedKeys(s1) {
			after, ok := s2[name]
			if !ok {
				viols = append(viols, harness.Viol{Signature: "C07:usage-removes-component:" + v, Message: fmt.Sprintf("[%s] after: %s — component %s disappeared", v, what, name)})
				continue
			}
			d := p2.FindType("", name)
			// a struct that received a tag legitimately changes, but only in the tagged properties and its required list
			before := s1[name]
			if d != nil && strings.Contains(what, "added to "+name+".") {
				tagged := map[string]bool{}
				for _, f := range d.Fields {
					if strings.Contains(what, "added to "+name+"."+f.Name+" ") {
						tagged[f.JSONName()] = true
					}
				}
				before, after = c07StripProps(before, tagged), c07StripProps(after, tagged)
			}
			if jsonStr(before) != jsonStr(after) {
				viols = append(viols, harness.Viol{Signature: "C07:usage-changes-shared-component:" + v,
					Message: fmt.Sprintf("[%s] after: %s — component %s changed from %s to %s", v, what, name, jsonStr(before), jsonStr(after))})
			}
		}
	}
	return viols
}

func typesDescribe(p *projgen.Project) string {
	var sb strings.Builder
	for _, t := range p.Types {
		fmt.Fprintf(&sb, "%s/%s %s %s base=%s", t.Pkg, t.File, t.Kind, t.Name, t.Base)
		for _, f := range t.Fields {
			fmt.Fprintf(&sb, " [%s %s json=%q validate=%q emb=%v]", f.Name, f.Type.GoExpr(t.Pkg, map[string]bool{}), f.JSON, f.Validate, f.Embedded)
		}
		for _, c := range t.Consts {
			fmt.Fprintf(&sb, " %s=%s", c.Name, c.Value)
		}
		sb.WriteString("\n")
	}
	return sb.String()
}

func c07Classify(m c07Model) harness.Class {
	p := m.Project
	reach := p.Reachable()
	direct := map[string]bool{}
	for _, c := range p.Controllers {
		for _, mm := range c.RealMethods() {
			for _, prm := range mm.Params {
				if b := prm.Type.Base(); b.Kind == "named" {
					direct[b.Name] = true
				}
			}
			if mm.Ret != nil {
				if b := mm.Ret.Base(); b.Kind == "named" {
					direct[b.Name] = true
				}
			}
		}
	}
	transitive, enum, cross, unreachable, embedded, recursive := false, false, false, false, false, false
	pkgs := map[string]bool{}
	for name, d := range reach {
		if !direct[name] {
			transitive = true
		}
		if d.Kind == "enum" {
			enum = true
		}
		pkgs[d.Pkg] = true
		for _, f := range d.Fields {
			if f.Embedded {
				embedded = true
			}
			if f.Type.Base().Kind == "named" && f.Type.Base().Name == name {
				recursive = true
			}
		}
	}
	cross = len(pkgs) >= 2
	for _, t := range p.Types {
		if reach[t.Name] == nil {
			unreachable = true
		}
	}
	c := harness.Class{}
	for label, on := range map[string]bool{"type-reachable-only-transitively": transitive, "has-enum": enum, "types-from-two-packages": cross,
		"has-unreachable-type": unreachable, "has-embedding": embedded, "self-recursive-struct": recursive} {
		if on {
			c.Labels = append(c.Labels, label)
		}
	}
	sort.Strings(c.Labels)
	c.NonTrivial = transitive && enum && cross
	return c
}

func TestC07(t *testing.T) {
	harness.Run(t, harness.Prop[c07Model]{
		ID:       "C07",
		Gen:      c07Gen,
		Check:    c07Check,
		Classify: c07Classify,
		Canon:    func(m c07Model) string { return jsonStr(m) },
		Sample: func(m c07Model) any {
			_, what := c07Derive(m)
			return map[string]any{"types": strings.Split(strings.TrimSpace(typesDescribe(m.Project)), "\n"), "routes": strings.Split(strings.TrimSpace(m.Project.Describe()), "\n"), "metamorphic_step": what}
		},
		Rule: "rapid draws type graphs (1-4 structs with fields over primitives, time.Time, []byte, any, enums of string/int/int32/uint8/float64 base, typedef and assigned aliases, nested " +
			"slices/pointers/maps, by-value references to earlier structs, pointer/slice references to any struct including itself, embedded structs, json tags with renames/omitempty, validate tags; " +
			"types spread over two packages, constants partly declared in another file, unreachable types next to reachable ones) used from parameters, bodies and results. Oracle (model): " +
			"(a) keys(components.schemas) = reachable closure (+Rfc7807Error iff a route returns plain error); (b) struct properties/required/allOf; (c) enum value set and type; (d) alias -> " +
			"underlying primitive; (e) metamorphic: P' = P + one validator tag at a usage site of a named type and/or + one route using a reachable type; every pre-existing component other than " +
			"the struct whose declaration received the tag must be byte-identical. Non-trivial = a type reachable only transitively AND an enum AND types from two packages; distinct = canonical JSON.",
		Assume: []string{"unexported fields and json:\"-\" fields are not generated in the main profile (finding F-C07-2 is replayed as a witness)", "type names are unique across packages"},
		Floors: map[string]float64{"nontrivial": 0.1, "accepted": 0.9, "metamorphic-pair": 0.35},
	})
}

// namedThrough returns the named type a field's type reaches through pointers and slices, or nil.
func namedThrough(t projgen.TypeRef) *projgen.TypeRef {
	for t.Kind == "ptr" || t.Kind == "slice" {
		if t.Elem == nil {
			return nil
		}
		t = *t.Elem
	}
	if t.Kind == "named" {
		return &t
	}
	return nil
}

// c07StripProps returns a copy of a struct schema without the named properties and without required lists.
func c07StripProps(schema any, names map[string]bool) any {
	switch x := schema.(type) {
	case map[string]any:
		out := map[string]any{}
		for k, v := range x {
			switch k {
			case "required":
			case "properties":
				props := map[string]any{}
				for pn, pv := range asMap(v) {
					if !names[pn] {
						props[pn] = pv
					}
				}
				out[k] = props
			case "allOf":
				var l []any
				for _, e := range asSlice(v) {
					l = append(l, c07StripProps(e, names))
				}
				out[k] = l
			default:
				out[k] = v
			}
		}
		return out
	}
	return schema
}

func dedupe(sorted []string) []string {
	var out []string
	for i, v := range sorted {
		if i == 0 || v != sorted[i-1] {
			out = append(out, v)
		}
	}
	return out
}
