package static

import (
	"fmt"
	"sort"
	"strconv"
	"testing"

	"pgregory.net/rapid"

	"verif/internal/ev"
	"verif/internal/harness"
	"verif/internal/lab"
	"verif/internal/projgen"
)

// C06 — documented parameters, bodies and responses equal the declared method signature.

func c06Check(p *projgen.Project, rec *ev.Recorder) []harness.Viol {
	res, _, err := runProject(p, lab.Want{Versions: bothVersions})
	if err != nil {
		rec.Inconclusive("scratch project: " + err.Error())
		return nil
	}
	if res.Panic != "" {
		rec.Label("gleece-panicked (reported under C14)", 1)
		return nil
	}
	if !res.Accepted() {
		rec.Label("rejected", 1)
		rec.SetExtra("last_rejection", fmtErr(res.RunErr)+fmtErr(res.ConfigErr))
		return nil
	}
	rec.Label("accepted", 1)
	var viols []harness.Viol
	for _, v := range bothVersions {
		if res.SpecErr[v] != nil {
			rec.Label("accepted-but-no-spec:"+v, 1)
			rec.SetExtra("last_spec_error", fmtErr(res.SpecErr[v]))
			continue
		}
		doc, err := parseSpec(res.Spec[v])
		if err != nil {
			viols = append(viols, harness.Viol{Signature: "C06:spec-not-json:" + v, Message: err.Error()})
			continue
		}
		rec.Label("document-checked", 1)
		got := specOps(doc)
		for _, op := range p.ExpectedOps() {
			if op.Method.Hidden {
				continue
			}
			g, ok := got[op.Verb+" "+op.Path]
			if !ok {
				continue // C01's business
			}
			where := fmt.Sprintf("[%s] %s %s (%s.%s%s)", v, op.Verb, op.Path, op.Controller.Name, op.Method.Name, projgen.Signature(op.Method, op.Controller.Pkg, map[string]bool{}))
			add := func(sig, format string, a ...any) {
				viols = append(viols, harness.Viol{Signature: "C06:" + sig + ":" + v, Message: where + ": " + fmt.Sprintf(format, a...)})
			}
			c06CheckOp(op.Method, g.Raw, add)
		}
	}
	return viols
}

func c06CheckOp(m *projgen.Method, op map[string]any, add func(sig, format string, a ...any)) {
	// ---- parameters: path/query/header in signature order
	var want []projgen.Param
	var body *projgen.Param
	var forms []projgen.Param
	for i := range m.Params {
		prm := m.Params[i]
		switch prm.In {
		case "context":
		case "body":
			body = &m.Params[i]
		case "form":
			forms = append(forms, prm)
		default:
			want = append(want, prm)
		}
	}
	gotParams := asSlice(op["parameters"])
	if len(gotParams) != len(want) {
		names := []string{}
		for _, g := range gotParams {
			names = append(names, fmt.Sprintf("%v(%v)", asMap(g)["name"], asMap(g)["in"]))
		}
		add("parameter-count", "documents %d parameters %v, signature has %d path/query/header parameters", len(gotParams), names, len(want))
	} else {
		for i, w := range want {
			g := asMap(gotParams[i])
			if g["name"] != w.WireName() || g["in"] != w.In {
				add("parameter-identity-or-order", "parameter %d is %v in %v, signature position %d is %s in %s", i, g["name"], g["in"], i, w.WireName(), w.In)
				continue
			}
			if boolOf(g["required"]) != w.Required() {
				add("parameter-required", "parameter %s: required=%v, rule gives %v (pointer=%v, in=%s, validator=%q)", w.WireName(), g["required"], w.Required(), w.Type.IsPtr(), w.In, w.Validator)
			}
			if d := schemaMismatch(asMap(g["schema"]), w.Type); d != "" {
				add("parameter-schema", "parameter %s: %s", w.WireName(), d)
			}
		}
	}
	for _, g := range gotParams {
		for _, prm := range m.Params {
			if prm.In == "context" && asMap(g)["name"] == prm.Name {
				add("context-parameter-documented", "context parameter %s appears in the document", prm.Name)
			}
		}
	}
	// ---- request body
	rb := asMap(op["requestBody"])
	switch {
	case body != nil:
		content := asMap(asMap(rb["content"])["application/json"])
		if content == nil {
			add("body-missing", "@Body parameter %s is not documented as an application/json requestBody: %s", body.Name, jsonStr(rb))
		} else {
			if d := schemaMismatch(asMap(content["schema"]), body.Type); d != "" {
				add("body-schema", "requestBody: %s", d)
			}
			if boolOf(rb["required"]) != body.Required() {
				add("body-required", "requestBody required=%v, rule gives %v", rb["required"], body.Required())
			}
		}
	case len(forms) > 0:
		content := asMap(asMap(rb["content"])["application/x-www-form-urlencoded"])
		schema := asMap(content["schema"])
		if schema == nil || schemaType(schema) != "object" {
			add("form-missing", "@FormField parameters are not documented as one urlencoded object body: %s", jsonStr(rb))
		} else {
			props := asMap(schema["properties"])
			var wantNames, wantReq []string
			for _, f := range forms {
				wantNames = append(wantNames, f.WireName())
				if f.Required() {
					wantReq = append(wantReq, f.WireName())
				}
				if d := schemaMismatch(asMap(props[f.WireName()]), f.Type); d != "" {
					add("form-field-schema", "form field %s: %s", f.WireName(), d)
				}
			}
			sort.Strings(wantNames)
			sort.Strings(wantReq)
			if !sameStrings(sortedKeys(props), wantNames) {
				add("form-fields", "form body has properties %v, the method declares %v", sortedKeys(props), wantNames)
			}
			if !sameStrings(stringSet(schema["required"]), wantReq) {
				add("form-required", "form body requires %v, rule gives %v", stringSet(schema["required"]), wantReq)
			}
		}
	default:
		if rb != nil {
			add("body-invented", "method has neither @Body nor @FormField but a requestBody is documented: %s", jsonStr(rb))
		}
	}
	// ---- responses
	resps := asMap(op["responses"])
	okCode := strconv.Itoa(m.SuccessCode())
	okResp := asMap(resps[okCode])
	if okResp == nil {
		add("success-code", "no %s response (has %v); method returns value=%v, @Response=%v", okCode, sortedKeys(resps), m.Ret != nil, m.Response)
	} else {
		content := asMap(asMap(okResp["content"])["application/json"])
		if m.Ret != nil {
			if content == nil {
				add("success-schema-missing", "%s response has no application/json content although the method returns a value", okCode)
			} else if d := schemaMismatch(asMap(content["schema"]), *m.Ret); d != "" {
				add("success-schema", "%s response: %s", okCode, d)
			}
		} else if len(asMap(okResp["content"])) > 0 {
			add("success-content-invented", "%s response has content although the method returns only an error", okCode)
		}
	}
	for _, e := range m.Errors {
		code := strconv.Itoa(e.Code)
		r := asMap(resps[code])
		if r == nil {
			add("error-response-missing", "@ErrorResponse(%s) is not listed (has %v)", code, sortedKeys(resps))
			continue
		}
		content := asMap(asMap(r["content"])["application/json"])
		wantRef := "#/components/schemas/" + m.ErrorSchemaName()
		if ref, _ := asMap(content["schema"])["$ref"].(string); ref != wantRef {
			add("error-response-schema", "response %s has schema %s, the error type is %s", code, jsonStr(content["schema"]), m.ErrorSchemaName())
		}
	}
}

func c06Classify(p *projgen.Project) harness.Class {
	c := harness.Class{}
	nt := false
	for _, ctl := range p.Controllers {
		for _, m := range ctl.RealMethods() {
			locs := map[string]bool{}
			ptr, nonptr, n, bodyOrForm := false, false, 0, false
			for _, prm := range m.Params {
				if prm.In == "context" {
					c.Labels = append(c.Labels, "context-param")
					continue
				}
				n++
				locs[prm.In] = true
				if prm.Type.IsPtr() {
					ptr = true
				} else {
					nonptr = true
				}
				if prm.In == "body" || prm.In == "form" {
					bodyOrForm = true
				}
			}
			if n >= 3 && len(locs) >= 2 && ptr && nonptr {
				c.Labels = append(c.Labels, "mixed-pointer-params-over-locations")
				nt = true
			}
			if bodyOrForm && len(m.Errors) > 0 {
				c.Labels = append(c.Labels, "body-or-form-with-error-responses")
				nt = true
			}
			if m.Response != nil && m.Response.Code != 200 && m.Response.Code != 204 {
				c.Labels = append(c.Labels, "non-default-success-code")
				nt = true
			}
			if m.ErrType != nil {
				c.Labels = append(c.Labels, "custom-error-type")
			}
		}
	}
	c.Labels = dedupeStrings(c.Labels)
	c.NonTrivial = nt
	return c
}

func dedupeStrings(in []string) []string {
	seen := map[string]bool{}
	var out []string
	for _, s := range in {
		if !seen[s] {
			seen[s] = true
			out = append(out, s)
		}
	}
	return out
}

var c06Profile = func() projgen.Profile {
	pf := projgen.FullProfile
	pf.Decoys = false
	pf.MaxMethods = 4
	pf.PtrPathParams = true
	return pf
}()

func TestC06(t *testing.T) {
	harness.Run(t, harness.Prop[*projgen.Project]{
		ID:       "C06",
		Gen:      func(t *rapid.T) *projgen.Project { return projgen.GenProject(t, c06Profile) },
		Check:    c06Check,
		Classify: c06Classify,
		Canon:    projectCanon,
		Sample:   projectSample,
		Rule: "rapid draws projects whose methods have parameter lists over string/bool/all int and uint widths/floats, enums, typedef and assigned aliases, []T in query, *T, context.Context at " +
			"any position, grouped declarations (a, b T), in path/query/header/form/body (struct, []struct, map[string]struct bodies), optional wire-name aliases and validator strings, " +
			"explicit `required` on pointers; return shapes error | (T, error) for T primitive/struct/slice/map/pointer/enum/alias/time.Time, custom error types by value and pointer, " +
			"@Response codes and 0-3 distinct @ErrorResponse codes. Oracle (model, hand-written Go->JSON-schema table): per documented operation in 3.0 and 3.1 the `parameters` are exactly the " +
			"path/query/header parameters in signature order with name/in/required/schema; JSON requestBody or one urlencoded object with properties/required; success code and schema; every " +
			"@ErrorResponse code with the error type's $ref; no context parameter. Non-trivial = an operation with >=3 parameters mixing pointer/non-pointer over >=2 locations, or a body/form " +
			"together with error responses, or a non-default success code; distinct = canonical JSON of the model.",
		Assume: []string{"extra response codes (the 3.0 emitter's `default`) are not a C06 matter: the statement lists what must be present", "validation keywords, descriptions and nullability are ignored when comparing schemas"},
		Floors: map[string]float64{"nontrivial": 0.3, "accepted": 0.9, "document-checked": 1.6},
	})
}
