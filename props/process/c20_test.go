package process

import (
	"encoding/json"
	"fmt"
	"os"
	"path/filepath"
	"regexp"
	"sort"
	"strconv"
	"strings"
	"syscall"
	"testing"
	"time"

	"pgregory.net/rapid"

	"verif/internal/ev"
	"verif/internal/harness"
	"verif/internal/lab"
	"verif/internal/projgen"
)

// C20 — configuration is validated up front and honoured in the output.

type c20Mutation struct {
	Name   string   `json:"name"`
	Path   []string `json:"path"`            // where in the document
	Op     string   `json:"op"`              // drop | set | raw
	Value  any      `json:"value,omitempty"` // for set
	Raw    string   `json:"raw,omitempty"`   // for raw: the whole document text
	Reject bool     `json:"reject"`
	Names  []string `json:"names,omitempty"` // the message must name one of these (case-insensitive substring)
}

type c20Model struct {
	Project  *projgen.Project `json:"project"`
	Mutation *c20Mutation     `json:"mutation,omitempty"`
	Style    int              `json:"style"`             // 0 JSON, 1 comments+trailing commas, 2 unquoted keys + single quotes
	DropGlob bool             `json:"dropGlob"`          // leave one controller file outside the globs
	RePerms  string           `json:"rePerms,omitempty"` // regenerate a second time with these permissions
}

var c20Mutations = []c20Mutation{
	{Name: "drop-routesConfig", Path: []string{"routesConfig"}, Op: "drop", Reject: true, Names: []string{"engine", "outputPath", "authFileFullPackageName"}},
	{Name: "drop-openapiGeneratorConfig", Path: []string{"openapiGeneratorConfig"}, Op: "drop", Reject: true, Names: []string{"openapi", "title", "version", "baseUrl", "outputPath"}},
	{Name: "drop-commonConfig", Path: []string{"commonConfig"}, Op: "drop", Reject: true, Names: []string{"commonConfig"}},
	{Name: "drop-engine", Path: []string{"routesConfig", "engine"}, Op: "drop", Reject: true, Names: []string{"engine"}},
	{Name: "engine-unknown", Path: []string{"routesConfig", "engine"}, Op: "set", Value: "express", Reject: true, Names: []string{"engine"}},
	{Name: "engine-wrong-case", Path: []string{"routesConfig", "engine"}, Op: "set", Value: "GIN", Reject: true, Names: []string{"engine"}},
	{Name: "engine-empty", Path: []string{"routesConfig", "engine"}, Op: "set", Value: "", Reject: true, Names: []string{"engine"}},
	{Name: "drop-routes-outputPath", Path: []string{"routesConfig", "outputPath"}, Op: "drop", Reject: true, Names: []string{"outputPath"}},
	{Name: "perms-77", Path: []string{"routesConfig", "outputFilePerms"}, Op: "set", Value: "77", Reject: true, Names: []string{"outputFilePerms"}},
	{Name: "perms-0888", Path: []string{"routesConfig", "outputFilePerms"}, Op: "set", Value: "0888", Reject: true, Names: []string{"outputFilePerms"}},
	{Name: "perms-rw-", Path: []string{"routesConfig", "outputFilePerms"}, Op: "set", Value: "rw-", Reject: true, Names: []string{"outputFilePerms"}},
	{Name: "perms-06444", Path: []string{"routesConfig", "outputFilePerms"}, Op: "set", Value: "06444", Reject: true, Names: []string{"outputFilePerms"}},
	{Name: "drop-authorizationConfig", Path: []string{"routesConfig", "authorizationConfig"}, Op: "drop", Reject: true, Names: []string{"authFileFullPackageName", "authorizationConfig"}},
	{Name: "drop-authFileFullPackageName", Path: []string{"routesConfig", "authorizationConfig", "authFileFullPackageName"}, Op: "drop", Reject: true, Names: []string{"authFileFullPackageName"}},
	{Name: "drop-openapi", Path: []string{"openapiGeneratorConfig", "openapi"}, Op: "drop", Reject: true, Names: []string{"openapi"}},
	{Name: "openapi-3.0.1", Path: []string{"openapiGeneratorConfig", "openapi"}, Op: "set", Value: "3.0.1", Reject: true, Names: []string{"openapi"}},
	{Name: "openapi-2.0", Path: []string{"openapiGeneratorConfig", "openapi"}, Op: "set", Value: "2.0", Reject: true, Names: []string{"openapi"}},
	{Name: "drop-info", Path: []string{"openapiGeneratorConfig", "info"}, Op: "drop", Reject: true, Names: []string{"title", "version", "info"}},
	{Name: "drop-title", Path: []string{"openapiGeneratorConfig", "info", "title"}, Op: "drop", Reject: true, Names: []string{"title"}},
	{Name: "drop-version", Path: []string{"openapiGeneratorConfig", "info", "version"}, Op: "drop", Reject: true, Names: []string{"version"}},
	{Name: "drop-baseUrl", Path: []string{"openapiGeneratorConfig", "baseUrl"}, Op: "drop", Reject: true, Names: []string{"baseUrl"}},
	{Name: "baseUrl-malformed", Path: []string{"openapiGeneratorConfig", "baseUrl"}, Op: "set", Value: "not a url", Reject: true, Names: []string{"baseUrl"}},
	{Name: "contact-email-malformed", Path: []string{"openapiGeneratorConfig", "info", "contact"}, Op: "set", Value: map[string]any{"name": "n", "email": "not-an-email"}, Reject: true, Names: []string{"email"}},
	{Name: "license-without-name", Path: []string{"openapiGeneratorConfig", "info", "license"}, Op: "set", Value: map[string]any{"url": "https://example.com/l"}, Reject: true, Names: []string{"name"}},
	{Name: "scheme-type-unknown", Path: []string{"openapiGeneratorConfig", "securitySchemes", "0", "type"}, Op: "set", Value: "jwt", Reject: true, Names: []string{"type"}},
	{Name: "scheme-type-wrong-case", Path: []string{"openapiGeneratorConfig", "securitySchemes", "0", "type"}, Op: "set", Value: "apikey", Reject: true, Names: []string{"type"}},
	{Name: "scheme-in-unknown", Path: []string{"openapiGeneratorConfig", "securitySchemes", "0", "in"}, Op: "set", Value: "body", Reject: true, Names: []string{"in"}},
	{Name: "scheme-httpscheme-unknown", Path: []string{"openapiGeneratorConfig", "securitySchemes", "0", "scheme"}, Op: "set", Value: "token", Reject: true, Names: []string{"scheme"}},
	{Name: "scheme-name-digit", Path: []string{"openapiGeneratorConfig", "securitySchemes", "0", "name"}, Op: "set", Value: "1abc", Reject: true, Names: []string{"name"}},
	{Name: "scheme-drop-name", Path: []string{"openapiGeneratorConfig", "securitySchemes", "0", "name"}, Op: "drop", Reject: true, Names: []string{"name"}},
	{Name: "scheme-drop-description", Path: []string{"openapiGeneratorConfig", "securitySchemes", "0", "description"}, Op: "drop", Reject: true, Names: []string{"description"}},
	{Name: "scheme-drop-type", Path: []string{"openapiGeneratorConfig", "securitySchemes", "0", "type"}, Op: "drop", Reject: true, Names: []string{"type"}},
	{Name: "scheme-openid-url-malformed", Path: []string{"openapiGeneratorConfig", "securitySchemes", "0", "openIdConnectUrl"}, Op: "set", Value: "nope", Reject: true, Names: []string{"openIdConnectUrl"}},
	{Name: "scheme-fieldName-digit", Path: []string{"openapiGeneratorConfig", "securitySchemes", "0", "fieldName"}, Op: "set", Value: "9x", Reject: true, Names: []string{"fieldName"}},
	{Name: "defaultSecurity-name-digit", Path: []string{"openapiGeneratorConfig", "defaultSecurity"}, Op: "set", Value: map[string]any{"name": "1x", "scopes": []any{}}, Reject: true, Names: []string{"name"}},
	{Name: "defaultSecurity-without-scopes", Path: []string{"openapiGeneratorConfig", "defaultSecurity"}, Op: "set", Value: map[string]any{"name": "apiKeyAuth"}, Reject: true, Names: []string{"scopes"}},
	{Name: "drop-specGeneratorConfig", Path: []string{"openapiGeneratorConfig", "specGeneratorConfig"}, Op: "drop", Reject: true, Names: []string{"outputPath", "specGeneratorConfig"}},
	{Name: "drop-spec-outputPath", Path: []string{"openapiGeneratorConfig", "specGeneratorConfig", "outputPath"}, Op: "drop", Reject: true, Names: []string{"outputPath"}},
	// wrong JSON types (rejected by the decoder; the statement's "naming the field" is about declared constraints)
	{Name: "engine-number", Path: []string{"routesConfig", "engine"}, Op: "set", Value: 5, Reject: true},
	{Name: "globs-string", Path: []string{"commonConfig", "controllerGlobs"}, Op: "set", Value: "./api/*.go", Reject: true},
	{Name: "skipDate-string", Path: []string{"routesConfig", "skipGenerateDateComment"}, Op: "set", Value: "yes", Reject: true},
	{Name: "schemes-object", Path: []string{"openapiGeneratorConfig", "securitySchemes"}, Op: "set", Value: map[string]any{}, Reject: true},
	// structure-breaking documents (any non-empty message)
	{Name: "raw-empty", Op: "raw", Raw: "", Reject: true},
	{Name: "raw-null", Op: "raw", Raw: "null", Reject: true},
	{Name: "raw-array", Op: "raw", Raw: "[]", Reject: true},
	{Name: "raw-truncated", Op: "raw", Raw: `{"commonConfig": {"controllerGlobs": ["./api/*.go"`, Reject: true},
	{Name: "raw-garbage", Op: "raw", Raw: "\x00\x01{{{", Reject: true},
	// harmless variations: must still be accepted
	{Name: "extra-key-top", Path: []string{"somethingElse"}, Op: "set", Value: map[string]any{"a": 1}},
	{Name: "extra-key-routes", Path: []string{"routesConfig", "futureOption"}, Op: "set", Value: true},
	{Name: "perms-644", Path: []string{"routesConfig", "outputFilePerms"}, Op: "set", Value: "644"},
	{Name: "perms-0600", Path: []string{"routesConfig", "outputFilePerms"}, Op: "set", Value: "0600"},
	{Name: "perms-0755", Path: []string{"routesConfig", "outputFilePerms"}, Op: "set", Value: "0755"},
	{Name: "perms-0640", Path: []string{"routesConfig", "outputFilePerms"}, Op: "set", Value: "0640"},
	{Name: "perms-empty", Path: []string{"routesConfig", "outputFilePerms"}, Op: "set", Value: ""},
	{Name: "packageName", Path: []string{"routesConfig", "packageName"}, Op: "set", Value: "myroutes"},
	{Name: "contact-valid", Path: []string{"openapiGeneratorConfig", "info", "contact"}, Op: "set", Value: map[string]any{"name": "n", "url": "https://example.com", "email": "a@example.com"}},
	{Name: "drop-securitySchemes", Path: []string{"openapiGeneratorConfig", "securitySchemes"}, Op: "drop"},
	{Name: "drop-defaultSecurity", Path: []string{"openapiGeneratorConfig", "defaultSecurity"}, Op: "drop"},
}

var c20Profile = projgen.Profile{
	MaxControllers: 3, MaxMethods: 3, CtrlPackages: []string{"api", "api2"}, Hidden: true, ExtraParams: 1, NoLayoutNoise: true,
}

func c20Gen(t *rapid.T) c20Model {
	m := c20Model{Project: projgen.GenProject(t, c20Profile), Style: rapid.IntRange(0, 2).Draw(t, "style")}
	if rapid.IntRange(0, 4).Draw(t, "mutate") > 0 {
		mu := rapid.SampledFrom(c20Mutations).Draw(t, "mutation")
		m.Mutation = &mu
	}
	m.DropGlob = rapid.IntRange(0, 2).Draw(t, "dropGlob") == 0
	if rapid.IntRange(0, 3).Draw(t, "regen") == 0 {
		m.RePerms = rapid.SampledFrom([]string{"0600", "0644", "0755", "0640"}).Draw(t, "rePerms")
	}
	return m
}

func c20Apply(doc map[string]any, mu *c20Mutation) {
	var cur any = doc
	for i, key := range mu.Path {
		last := i == len(mu.Path)-1
		switch c := cur.(type) {
		case map[string]any:
			if last {
				if mu.Op == "drop" {
					delete(c, key)
				} else {
					c[key] = mu.Value
				}
				return
			}
			next, ok := c[key]
			if !ok {
				return
			}
			cur = next
		case []any:
			idx, err := strconv.Atoi(key)
			if err != nil || idx >= len(c) {
				return
			}
			cur = c[idx]
		default:
			return
		}
	}
}

var bareKeyLine = regexp.MustCompile(`(?m)^(\s*)"([A-Za-z_][A-Za-z0-9_]*)":`)

func c20Render(doc map[string]any, style int) string {
	b, _ := json.MarshalIndent(doc, "", "\t")
	s := string(b)
	switch style {
	case 1: // comments and trailing commas
		lines := strings.Split(s, "\n")
		var out []string
		out = append(out, "// generated configuration", "/* block", "   comment */")
		for i, l := range lines {
			trim := strings.TrimSpace(l)
			if i+1 < len(lines) {
				next := strings.TrimSpace(lines[i+1])
				if (strings.HasPrefix(next, "}") || strings.HasPrefix(next, "]")) && trim != "" && !strings.HasSuffix(trim, ",") && !strings.HasSuffix(trim, "{") && !strings.HasSuffix(trim, "[") {
					l += ","
				}
			}
			out = append(out, l)
		}
		return strings.Join(out, "\n") + "\n"
	case 2: // unquoted keys
		return bareKeyLine.ReplaceAllString(s, "$1$2:")
	}
	return s
}

// brokenSource is what every run's globs additionally match when the configuration is expected to
// be rejected: if analysis started before validation, the parse error would show instead.
const brokenSource = "package api\n\nfunc ( {{{ this is not Go\n"

func c20Check(m c20Model, rec *ev.Recorder) []harness.Viol {
	syscall.Umask(0o022)
	bin, err := lab.BuildCLI("")
	if err != nil {
		rec.Inconclusive(err.Error())
		return nil
	}
	dir, err := lab.Scratch("c20-")
	if err != nil {
		rec.Inconclusive(err.Error())
		return nil
	}
	defer os.RemoveAll(dir)
	p := m.Project
	if _, err := p.WriteTo(dir, projgen.RenderOptions{}, lab.RepoRoot); err != nil {
		rec.Inconclusive(err.Error())
		return nil
	}
	cfg := p.Config
	cfg.RoutesOut, cfg.SpecOut = "./gen/out/routes/api.gleece.go", "./gen/docs/openapi.json"
	// globs: explicit file list, optionally leaving one controller's file out
	var ctrlFiles []string
	seen := map[string]bool{}
	for _, c := range p.Controllers {
		for _, f := range append([]string{c.File}, methodFiles(c)...) {
			rel := "./" + c.Pkg + "/" + f
			if !seen[rel] {
				seen[rel] = true
				ctrlFiles = append(ctrlFiles, rel)
			}
		}
	}
	sort.Strings(ctrlFiles)
	excluded := ""
	if m.DropGlob && len(p.Controllers) >= 2 {
		excluded = "./" + p.Controllers[len(p.Controllers)-1].Pkg + "/" + p.Controllers[len(p.Controllers)-1].File
	}
	cfg.Globs = nil
	for _, f := range ctrlFiles {
		if f != excluded {
			cfg.Globs = append(cfg.Globs, f)
		}
	}
	doc := cfg.ConfigJSON()
	expectReject := false
	var text string
	if m.Mutation != nil && m.Mutation.Op == "raw" {
		text, expectReject = m.Mutation.Raw, true
	} else {
		if m.Mutation != nil {
			// path into securitySchemes assumes an array of maps built by ConfigJSON
			c20Apply(doc, m.Mutation)
			expectReject = m.Mutation.Reject
		}
		if expectReject && m.Mutation.Name != "drop-commonConfig" {
			// ordering probe: the globs also match a file that does not parse
			_ = os.MkdirAll(filepath.Join(dir, "broken"), 0o755)
			_ = os.WriteFile(filepath.Join(dir, "broken", "broken.go"), []byte(brokenSource), 0o644)
			if cc, ok := doc["commonConfig"].(map[string]any); ok {
				if g, ok := cc["controllerGlobs"].([]string); ok {
					cc["controllerGlobs"] = append(append([]string{}, g...), "./broken/*.go")
				}
			}
		}
		text = c20Render(doc, m.Style)
	}
	if err := os.WriteFile(filepath.Join(dir, "gleece.config.json"), []byte(text), 0o644); err != nil {
		rec.Inconclusive(err.Error())
		return nil
	}
	res := lab.RunCLI(bin, dir, 120*time.Second, nil, "generate", "spec-and-routes", "-c", "./gleece.config.json")
	if res.TimedOut {
		rec.Inconclusive("CLI run exceeded the harness time limit")
		return nil
	}
	var viols []harness.Viol
	muName := "none"
	if m.Mutation != nil {
		muName = m.Mutation.Name
	}
	add := func(sig, format string, a ...any) {
		viols = append(viols, harness.Viol{Signature: "C20:" + sig, Message: fmt.Sprintf("[mutation %s] ", muName) + fmt.Sprintf(format, a...)})
	}
	if res.Crashed() {
		add("crash", "the CLI crashed: %s", tailStr(res.Output(), 600))
		return viols
	}
	routesPath := filepath.Join(dir, cfg.RoutesOut)
	specPath := filepath.Join(dir, cfg.SpecOut)

	if expectReject {
		rec.Label("expect-reject", 1)
		out := res.Output()
		if res.Exit == 0 {
			add("constraint-violation-accepted:"+muName, "the configuration violates a declared constraint but the command succeeded")
			return viols
		}
		if strings.TrimSpace(out) == "" {
			add("rejected-without-message", "exit %d with empty output", res.Exit)
		}
		if strings.Contains(out, "broken.go") || strings.Contains(out, "failed to parse file") {
			add("analysis-before-validation", "source analysis ran before the configuration was rejected: %s", tailStr(out, 400))
		}
		if len(m.Mutation.Names) > 0 {
			named := false
			for _, n := range m.Mutation.Names {
				if strings.Contains(strings.ToLower(out), strings.ToLower(n)) {
					named = true
				}
			}
			if !named {
				add("message-does-not-name-field:"+muName, "rejection message names none of %v: %s", m.Mutation.Names, tailStr(out, 400))
			}
		}
		if _, err := os.Stat(filepath.Join(dir, "gen")); err == nil {
			add("rejected-but-wrote-output", "output directory exists after a rejected configuration")
		}
		return viols
	}

	rec.Label("expect-accept", 1)
	if res.Exit != 0 {
		add("valid-configuration-rejected:"+muName, "exit %d: %s", res.Exit, tailStr(res.Output(), 500))
		return viols
	}
	// ---- honoured literally
	st, err := os.Stat(routesPath)
	if err != nil {
		add("routes-not-at-configured-path", "%v", err)
		return viols
	}
	wantPerm := os.FileMode(0o644)
	if routes, ok := doc["routesConfig"].(map[string]any); ok {
		if ps, ok := routes["outputFilePerms"].(string); ok && ps != "" {
			if v, err := strconv.ParseUint(ps, 8, 32); err == nil {
				wantPerm = os.FileMode(v)
			}
		}
	}
	wantPerm &^= 0o022
	if st.Mode().Perm() != wantPerm {
		add("routes-file-mode", "routes file has mode %04o, configured permissions give %04o under umask 022", st.Mode().Perm(), wantPerm)
	}
	routesSrc, _ := os.ReadFile(routesPath)
	wantPkg := "routes"
	if routes, ok := doc["routesConfig"].(map[string]any); ok {
		if pn, ok := routes["packageName"].(string); ok && pn != "" {
			wantPkg = pn
		}
	}
	if !regexp.MustCompile(`(?m)^package ` + regexp.QuoteMeta(wantPkg) + `\s*$`).Match(routesSrc) {
		add("routes-package-name", "routes file is not in package %q", wantPkg)
	}
	engineImport := map[string]string{"gin": "github.com/gin-gonic/gin", "echo": "github.com/labstack/echo/v4", "mux": "github.com/gorilla/mux", "chi": "github.com/go-chi/chi/v5", "fiber": "github.com/gofiber/fiber/v2"}[cfg.Engine]
	if !strings.Contains(string(routesSrc), `"`+engineImport+`"`) {
		add("routes-engine", "routes file does not import %s (engine %s)", engineImport, cfg.Engine)
	}
	specBytes, err := os.ReadFile(specPath)
	if err != nil {
		add("spec-not-at-configured-path", "%v", err)
		return viols
	}
	var spec map[string]any
	if err := json.Unmarshal(specBytes, &spec); err != nil {
		add("spec-not-json", "%v", err)
		return viols
	}
	if spec["openapi"] != cfg.OpenAPI {
		add("spec-version", "spec declares openapi %v, configured %s", spec["openapi"], cfg.OpenAPI)
	}
	info, _ := spec["info"].(map[string]any)
	if info["title"] != cfg.Title || info["version"] != cfg.Version {
		add("spec-info", "info %v, configured title %q version %q", info, cfg.Title, cfg.Version)
	}
	servers, _ := spec["servers"].([]any)
	if len(servers) != 1 || servers[0].(map[string]any)["url"] != cfg.BaseURL {
		add("spec-servers", "servers %v, configured baseUrl %q", servers, cfg.BaseURL)
	}
	// only files matched by the globs contribute
	paths, _ := spec["paths"].(map[string]any)
	want := map[string]bool{}
	for _, op := range p.ExpectedOps() {
		cf := "./" + op.Controller.Pkg + "/" + op.Controller.File
		mf := "./" + op.Controller.Pkg + "/" + op.Method.File
		if cf == excluded || mf == excluded || op.Method.Hidden {
			continue
		}
		want[op.Path] = true
	}
	for pth := range paths {
		if !want[pth] {
			add("glob-excluded-file-contributes", "spec has path %s which no globbed file defines (excluded: %s)\n%s", pth, excluded, p.Describe())
		}
	}
	for pth := range want {
		if _, ok := paths[pth]; !ok {
			add("globbed-route-missing", "spec lacks path %s (excluded: %s)\n%s", pth, excluded, p.Describe())
		}
	}
	if excluded != "" {
		rec.Label("controller-outside-globs", 1)
		ex := p.Controllers[len(p.Controllers)-1]
		if strings.Contains(string(routesSrc), ex.Name+"{}") {
			add("glob-excluded-controller-in-routes", "routes file instantiates %s whose file %s no glob matches", ex.Name, excluded)
		}
	}
	// regeneration with other permissions is honoured too
	if m.RePerms != "" {
		rec.Label("regenerated-with-other-perms", 1)
		if routes, ok := doc["routesConfig"].(map[string]any); ok {
			routes["outputFilePerms"] = m.RePerms
		}
		_ = os.WriteFile(filepath.Join(dir, "gleece.config.json"), []byte(c20Render(doc, m.Style)), 0o644)
		res2 := lab.RunCLI(bin, dir, 120*time.Second, nil, "generate", "spec-and-routes", "-c", "./gleece.config.json")
		if res2.Exit == 0 {
			st2, err := os.Stat(routesPath)
			v, _ := strconv.ParseUint(m.RePerms, 8, 32)
			want2 := os.FileMode(v) &^ 0o022
			if err == nil && st2.Mode().Perm() != want2 {
				add("routes-file-mode-on-regeneration", "after regenerating with outputFilePerms=%s the existing routes file keeps mode %04o (want %04o)", m.RePerms, st2.Mode().Perm(), want2)
			}
		}
	}
	return viols
}

func methodFiles(c *projgen.Controller) []string {
	var out []string
	for _, m := range c.Methods {
		out = append(out, m.File)
	}
	return out
}

func c20Classify(m c20Model) harness.Class {
	c := harness.Class{}
	if m.Mutation != nil {
		if m.Mutation.Reject {
			c.Labels = append(c.Labels, "single-field-corruption")
		} else {
			c.Labels = append(c.Labels, "harmless-variation")
		}
		if strings.HasPrefix(m.Mutation.Name, "perms-") && !m.Mutation.Reject {
			c.Labels = append(c.Labels, "non-default-permissions")
		}
	}
	if m.Style != 0 {
		c.Labels = append(c.Labels, "json5-syntax")
	}
	if m.DropGlob && len(m.Project.Controllers) >= 2 {
		c.Labels = append(c.Labels, "glob-excludes-a-controller")
	}
	c.NonTrivial = m.Mutation != nil || (m.DropGlob && len(m.Project.Controllers) >= 2) || m.RePerms != ""
	return c
}

func TestC20(t *testing.T) {
	harness.Run(t, harness.Prop[c20Model]{
		ID:       "C20",
		Gen:      c20Gen,
		Check:    c20Check,
		Classify: c20Classify,
		Canon: func(m c20Model) string {
			b, _ := json.Marshal(m)
			return string(b)
		},
		Sample: func(m c20Model) any {
			return map[string]any{"mutation": m.Mutation, "style": m.Style, "dropGlob": m.DropGlob, "rePerms": m.RePerms, "engine": m.Project.Config.Engine, "openapi": m.Project.Config.OpenAPI}
		},
		Rule: "rapid draws a small valid project + configuration (all engines x both versions), a JSON5 rendering style (plain / comments+trailing commas / unquoted keys), optionally ONE mutation " +
			"from a catalogue of ~60 transcribed from the configuration struct tags (drop each required section/field, unknown engine/version, malformed URL/e-mail/permission string/scheme " +
			"type/in/scheme/name/openIdConnectUrl, wrong JSON types, structure-breaking documents, and harmless variations: unknown keys, permission strings, package name), optionally leaves one " +
			"controller file outside the globs, optionally regenerates with other permissions; the REAL CLI runs `generate spec-and-routes`. Oracle: the constraint table predicts accept/reject; " +
			"on reject: exit != 0, message names the field, nothing written, and (ordering probe) a glob-matched file with a syntax error is never reported; on accept: routes at outputPath with mode " +
			"perms&^umask, package name, engine import; spec at its path with version/info/servers; only glob-matched files contribute. Non-trivial = one constrained field differs from the valid base, " +
			"or a controller is outside the globs, or permissions change on regeneration; distinct = canonical JSON of the case.",
		Assume: []string{"umask 022 is set by the harness", "field naming is accepted under the JSON key or the Go field name, case-insensitively"},
		Floors: map[string]float64{"nontrivial": 0.6, "single-field-corruption": 0.3, "expect-accept": 0.2},
	})
}
