package process

import (
	"encoding/json"
	"fmt"
	"os"
	"os/exec"
	"path/filepath"
	"strings"
	"testing"
	"time"

	"pgregory.net/rapid"

	"verif/internal/ev"
	"verif/internal/harness"
	"verif/internal/lab"
	"verif/internal/projgen"
)

// C14 (process level) — every run of the real CLI terminates with success or a reported
// error, never a crash or hang, on compilable projects decorated with unsupported constructs,
// malformed annotations, arbitrary validator tags and broken configurations.

type c14Deco struct {
	Kind    string `json:"kind"`
	Target  int    `json:"target"`
	Variant int    `json:"variant"`
}

type c14Model struct {
	Project  *projgen.Project `json:"project"`
	Decos    []c14Deco        `json:"decos"`
	Mutation *c20Mutation     `json:"mutation,omitempty"`
}

// raw struct fields of types gleece does not support (or barely supports)
var c14FieldLines = []string{
	"Fn func(int) string",
	"Ch chan int",
	"RO <-chan string",
	"Inline struct{ A int; B string }",
	"InlinePtr *struct{ A int }",
	"Iface interface{ M() }",
	"Reader io.Reader",
	"Arr [3]int",
	"Arr2 [2][2]string",
	"PP **int",
	"Cx complex128",
	"Up uintptr",
	"UnsafeP unsafe.Pointer",
	"IntKey map[int]string",
	"Nested map[string]map[string][]int",
	"MapOfSlices map[string][]*string",
	"SliceOfMaps []map[string]any",
	"Gen Box[int]",
	"GenPtr *Box[string]",
	"Gen2 Pair[string, []int]",
	"GenSelf Box[Box[int]]",
	"GenSame Pair[string, string]",
	"GenDuo Duo[string, string]",
	"GenDuoPtr *Duo[int, int]",
	"GenDuoNested Duo[Box[int], Box[int]]",
	"GenDuoSlices []Duo[string, string]",
	"GenDuoMixed Duo[string, int]",
	"Err error",
	"Ctx context.Context",
	"Dur time.Duration",
	"Raw json.RawMessage",
	"AnySlice []any",
	"Runes []rune",
	"B byte",
	"Rec *RecA",
	"Emb2 struct{ RecB }",
	"Tagged string `json:\"a,omitempty,string\" validate:\"required,oneof='a b' c\"`",
	"WeirdTag int `validate:\"gt=,lt=abc,min=-1,max=1e9\"`",
	"BadTag string `json:name validate`",
	// struct tags are free text to the compiler: anything may be in there
	"Unterminated string `json:\"name\" validate:\"required`",
	"UntermJSON string `validate:\"required\" json:\"name`",
	"OnlyQuote string `json:\"`",
	"EmptyKey string `:\"x\" json:\"k\"`",
	"NoValue string `json: validate:`",
	"EscQuote string `json:\"a\\\"b\" validate:\"oneof=x\\\"y\"`",
	"Blank string `   `",
	"DashComma string `json:\"-,\" validate:\",\"`",
	"KeyOnly string `validate`",
	"TwoColons string `json::\"x\" validate:\"min=1\":`",
	"_ int",
	"Ünï string",
}

const c14Support = `type Box[T any] struct {
	Value T
}

type Duo[A, B any] struct {
	First  A ` + "`json:\"first\"`" + `
	Second B
}

type Pair[K comparable, V any] struct {
	Key K
	Val V
}

type RecA struct {
	B *RecB
}

type RecB struct {
	A []RecA
	Self *RecB
}
`

// raw method shapes: signature + the annotation lines that go with it
var c14Sigs = []struct {
	sig string
	doc []string
}{
	{"(f func(int) string) error", []string{"// @Query(f)"}},
	{"(c chan int) error", []string{"// @Header(c)"}},
	{"(b models.Box[int]) error", []string{"// @Body(b)"}},
	{"(b models.Box[int]) (models.Box[string], error)", []string{"// @Body(b)"}},
	{"(p models.Pair[string, int]) error", []string{"// @Body(p)"}},
	{"(p models.Pair[string, string]) error", []string{"// @Body(p)"}},
	{"(p models.Duo[string, string]) error", []string{"// @Body(p)"}},
	{"(p models.Duo[int, int]) (models.Duo[string, int], error)", []string{"// @Body(p)"}},
	{"() (models.Duo[models.Box[int], models.Box[int]], error)", nil},
	{"() ([]models.Duo[bool, bool], error)", nil},
	{"(a [3]int) error", []string{"// @Query(a)"}},
	{"(s struct{ A int }) error", []string{"// @Body(s)"}},
	{"(i interface{ M() }) error", []string{"// @Body(i)"}},
	{"(m map[string]string) error", []string{"// @Query(m)"}},
	{"(m map[int]string) error", []string{"// @Body(m)"}},
	{"(e error) error", []string{"// @Query(e)"}},
	{"(pp **string) error", []string{"// @Query(pp)"}},
	{"(xs ...string) error", []string{"// @Query(xs)"}},
	{"(r *models.RecA) (*models.RecB, error)", []string{"// @Body(r)"}},
	{"() (models.RecA, error)", nil},
	{"() (res models.RecA, err error)", nil},
	{"() (a, b error)", nil},
	{"() (func(), error)", nil},
	{"() (chan int, error)", nil},
	{"() ([3]int, error)", nil},
	{"() (struct{ A int }, error)", nil},
	{"() (map[string][]models.RecA, error)", nil},
	{"() ([]*models.Box[int], error)", nil},
	{"() (any, error)", nil},
	{"() (interface{}, error)", nil},
	{"()", nil},
	{"() string", nil},
	{"() (string, int, error)", nil},
	{"(_ string) error", []string{"// @Query(_)"}},
	{"(string, int) error", []string{"// @Query(a)"}},
	{"(t time.Time, d time.Duration) error", []string{"// @Query(t)", "// @Query(d)"}},
	{"(u unsafe.Pointer) error", []string{"// @Query(u)"}},
	{"(ctx context.Context, ctx2 context.Context) error", nil},
}

// malformed / unusual annotation lines
var c14DocLines = []string{
	"// @Query(a, {name: })",
	"// @Query(a, {name: 'x'}",
	"// @Query(a, {{}})",
	"// @Header(h, {validate: 5})",
	"// @Header(h, {name: null})",
	"// @Path(zz, {name: [1]})",
	"// @Path(id, {name: {a: 1}})",
	"// @Security(x, {scopes: \"read\"})",
	"// @Security(x, {scopes: [1, 2]})",
	"// @Security(x, {scopes: null})",
	"// @Security(, {scopes: []})",
	"// @Security",
	"// @Method",
	"// @Method()",
	"// @Method(get)",
	"// @Method(TRACE)",
	"// @Method(GET) @Method(POST)",
	"// @Route",
	"// @Route()",
	"// @Route({)",
	"// @Route(/a/{)",
	"// @Route(/a/}{/b)",
	"// @Route(/{a}{b})",
	"// @Route(/a/{a}/{a})",
	"// @Route(relative/{x})",
	"// @Response(abc)",
	"// @Response(99999999999999999999)",
	"// @Response(-1)",
	"// @ErrorResponse(0)",
	"// @ErrorResponse(1000) big",
	"// @ErrorResponse()",
	"// @TemplateContext(a, {x: 1})",
	"// @TemplateContext(a, {x: 2})",
	"// @TemplateContext(b, {nested: {deep: [1, {x: null}]}})",
	"// @Unknown(thing)",
	"// @Hidden(x, {a: 1}) why",
	"// @Deprecated(1, {a: [}) ",
	"// @Description",
	"// @Description ‮ right-to-left \u0000",
	"// @Tag(Wrong place)",
	"// @Body(a)",
	"// @Body(b)",
	"// @FormField(a)",
	"// @Query(a, {name: \"dup\"})",
	"// @Header(b, {name: \"dup\"})",
	"//@Query(a)",
	"// @Query(a, {validate: \"" + strings.Repeat("x,", 200) + "\"})",
	"// @Query(" + strings.Repeat("a", 5000) + ")",
}

var c14Tags = []string{"min=abc", "len=", "oneof=", "enum=|", "gt=1e999", "uniqueItems=maybe", "minItems=-1", "pattern=[", "required,,", "=", ",", "oneof=a b,enum=c|d", "dive,required", "email,uuid,ip", "max=18446744073709551616"}

func c14Gen(t *rapid.T) c14Model {
	pf := projgen.FullProfile
	pf.MaxControllers, pf.MaxMethods, pf.Decoys = 2, 3, false
	pf.VarySchemes = true // the scheme catalogue is input too: every scheme type, any subset of oauth2 flows
	m := c14Model{Project: projgen.GenProject(t, pf)}
	n := rapid.IntRange(1, 4).Draw(t, "nDecos")
	for i := 0; i < n; i++ {
		d := c14Deco{Kind: rapid.SampledFrom([]string{"field", "field", "field", "sig", "sig", "doc", "doc", "doc", "ctrldoc", "tag", "dupop", "emptyfile", "selfembed", "dotimport"}).Draw(t, "decoKind"),
			Target: rapid.IntRange(0, 50).Draw(t, "target"), Variant: rapid.IntRange(0, 1000).Draw(t, "variant")}
		m.Decos = append(m.Decos, d)
	}
	if rapid.IntRange(0, 5).Draw(t, "cfgMutation") == 0 {
		mu := rapid.SampledFrom(c20Mutations).Draw(t, "mutation")
		m.Mutation = &mu
	}
	return m
}

// c14Decorate applies the decorations to a copy of the project and returns labels.
func c14Decorate(m c14Model) (*projgen.Project, []string) {
	b, _ := json.Marshal(m.Project)
	var p projgen.Project
	_ = json.Unmarshal(b, &p)
	var labels []string
	// support declarations for the generic / recursive shapes
	p.Types = append(p.Types, &projgen.TypeDecl{Name: "support", Pkg: "models", File: "support.go", Kind: "raw", Raw: c14Support})
	var structs []*projgen.TypeDecl
	for _, t := range p.Types {
		if t.Kind == "struct" && t.Pkg == "models" {
			structs = append(structs, t)
		}
	}
	var methods []*projgen.Method
	var owners []*projgen.Controller
	for _, c := range p.Controllers {
		for _, mm := range c.Methods {
			methods = append(methods, mm)
			owners = append(owners, c)
		}
	}
	for _, d := range m.Decos {
		switch d.Kind {
		case "field":
			if len(structs) == 0 {
				continue
			}
			t := structs[d.Target%len(structs)]
			line := c14FieldLines[d.Variant%len(c14FieldLines)]
			// distinct field names when the same line is added twice
			t.Fields = append(t.Fields, projgen.Field{Raw: fmt.Sprintf("X%d%s", len(t.Fields), line)})
			if strings.HasPrefix(line, "_") || strings.HasPrefix(line, "Ünï") {
				t.Fields[len(t.Fields)-1].Raw = line
			}
			for _, imp := range []string{"io", "unsafe", "context", "time", "encoding/json"} {
				short := imp[strings.LastIndex(imp, "/")+1:]
				if strings.Contains(line, short+".") {
					t.Imports = append(t.Imports, imp)
				}
			}
			// make sure the decorated struct is reachable from a route
			if len(methods) > 0 {
				if mm := methods[d.Variant%len(methods)]; mm.RawSig == "" {
					r := projgen.Named(t.Pkg, t.Name)
					mm.Ret = &r
				}
			}
			labels = append(labels, "unsupported-field-type")
		case "sig":
			if len(methods) == 0 {
				continue
			}
			mm := methods[d.Target%len(methods)]
			v := c14Sigs[d.Variant%len(c14Sigs)]
			doc := []string{"// @Method(" + mm.Verb + ")", fmt.Sprintf("// @Route(/raw%d)", d.Target)}
			mm.RawDoc = append(doc, v.doc...)
			mm.RawSig = v.sig
			// the packages the raw signature names (a method file only imports what its own methods need)
			for pkgName, imp := range map[string]string{"models.": projgen.Module + "/models", "time.": "time", "unsafe.": "unsafe", "context.": "context"} {
				if strings.Contains(v.sig, pkgName) {
					mm.RawImports = append(mm.RawImports, imp)
				}
			}
			labels = append(labels, "unsupported-signature")
		case "doc":
			if len(methods) == 0 {
				continue
			}
			mm := methods[d.Target%len(methods)]
			lines := mm.RawDoc
			if lines == nil {
				lines = projgen.MethodDocLines(mm)
			}
			line := c14DocLines[d.Variant%len(c14DocLines)]
			switch d.Variant % 3 {
			case 0:
				lines = append(lines, line)
			case 1:
				lines = append([]string{line}, lines...)
			default:
				if len(lines) > 0 {
					lines[d.Target%len(lines)] = line
				} else {
					lines = []string{line}
				}
			}
			mm.RawDoc = lines
			labels = append(labels, "malformed-annotation")
		case "ctrldoc":
			c := p.Controllers[d.Target%len(p.Controllers)]
			c.RawDoc = []string{"// @Tag(T)", "// @Route(/c" + fmt.Sprint(d.Target) + ")", c14DocLines[d.Variant%len(c14DocLines)]}
			labels = append(labels, "malformed-controller-annotation")
		case "tag":
			if len(structs) == 0 {
				continue
			}
			t := structs[d.Target%len(structs)]
			if len(t.Fields) == 0 {
				continue
			}
			f := &t.Fields[d.Variant%len(t.Fields)]
			if f.Raw == "" {
				f.Validate = c14Tags[d.Variant%len(c14Tags)]
				labels = append(labels, "arbitrary-validate-tag")
			}
		case "dupop":
			if len(methods) >= 2 && owners[0] != owners[len(owners)-1] {
				methods[len(methods)-1].Name = methods[0].Name
				labels = append(labels, "duplicate-operation-id")
			}
		case "emptyfile":
			c := p.Controllers[d.Target%len(p.Controllers)]
			body := []string{"", "// just a comment", "//go:build ignore", "var _ = 1"}[d.Variant%4]
			p.Extra = append(p.Extra, projgen.ExtraFile{Pkg: c.Pkg, Name: fmt.Sprintf("empty%d.go", d.Variant%7), Body: body})
			labels = append(labels, "near-empty-file")
		case "selfembed":
			if len(structs) == 0 {
				continue
			}
			t := structs[d.Target%len(structs)]
			t.Fields = append(t.Fields, projgen.Field{Raw: "*" + t.Name})
			if len(methods) > 0 {
				if mm := methods[d.Variant%len(methods)]; mm.RawSig == "" {
					r := projgen.Named(t.Pkg, t.Name)
					mm.Ret = &r
				}
			}
			labels = append(labels, "self-embedding-type")
		case "dotimport":
			c := p.Controllers[d.Target%len(p.Controllers)]
			p.Extra = append(p.Extra, projgen.ExtraFile{Pkg: c.Pkg, Name: "dotimport.go", Body: "import . \"" + projgen.Module + "/models\"\n\nimport m2 \"" + projgen.Module + "/models\"\n\nvar _ RecA\nvar _ m2.RecB"})
			labels = append(labels, "dot-and-aliased-imports")
		}
	}
	return &p, labels
}

func c14Check(m c14Model, rec *ev.Recorder) []harness.Viol {
	bin, err := lab.BuildCLI("")
	if err != nil {
		rec.Inconclusive(err.Error())
		return nil
	}
	dir, err := lab.Scratch("c14-")
	if err != nil {
		rec.Inconclusive(err.Error())
		return nil
	}
	defer os.RemoveAll(dir)
	p, _ := c14Decorate(m)
	if _, err := p.WriteTo(dir, projgen.RenderOptions{}, lab.RepoRoot); err != nil {
		rec.Inconclusive(err.Error())
		return nil
	}
	if m.Mutation != nil {
		doc := p.Config.ConfigJSON()
		text := ""
		if m.Mutation.Op == "raw" {
			text = m.Mutation.Raw
		} else {
			c20Apply(doc, m.Mutation)
			text = c20Render(doc, 0)
		}
		_ = os.WriteFile(filepath.Join(dir, "gleece.config.json"), []byte(text), 0o644)
	}
	var viols []harness.Viol
	compilable := func() bool {
		c := exec.Command("go", "vet", "./...")
		c.Dir = dir
		c.Env = append(os.Environ(), "GOFLAGS=-mod=mod", "GOPROXY=off", "GOTOOLCHAIN=auto")
		out, err := c.CombinedOutput()
		if err != nil {
			rec.SetExtra("last_noncompilable", tailStr(string(out), 400))
		}
		return err == nil
	}
	commands := [][]string{
		{"generate", "spec", "-c", "./gleece.config.json"},
		{"generate", "routes", "-c", "./gleece.config.json"},
		{"generate", "spec-and-routes", "-c", "./gleece.config.json"},
		{"dump", "graph", "-c", "./gleece.config.json", "-f", "dot", "-o", "./dist/graph.dot"},
	}
	for _, args := range commands {
		_ = os.RemoveAll(filepath.Join(dir, "dist"))
		res := lab.RunCLI(bin, dir, 120*time.Second, nil, args...)
		rec.AddExtraInt("cli_runs", 1)
		name := strings.Join(args[:2], " ")
		if res.TimedOut {
			rec.Inconclusive(fmt.Sprintf("`gleece %s` exceeded the 120 s harness limit (a hang is only observable as a time-out)", name))
			continue
		}
		if res.Crashed() {
			if !compilable() {
				rec.Label("crash-on-noncompilable-input (not counted)", 1)
				return nil
			}
			viols = append(viols, harness.Viol{Signature: "C14:cli-crash:" + crashSite(res.Output()),
				Message: fmt.Sprintf("`gleece %s` crashed (exit %d): %s ... %s", name, res.Exit, panicLines(res.Output()), tailStr(res.Output(), 1200))})
			return viols
		}
		if res.Exit == 0 {
			rec.Label("exit0", 1)
			want := map[string][]string{"generate spec": {p.Config.SpecOut}, "generate routes": {p.Config.RoutesOut}, "generate spec-and-routes": {p.Config.SpecOut, p.Config.RoutesOut}, "dump graph": {"./dist/graph.dot"}}[name]
			if m.Mutation == nil || !m.Mutation.Reject {
				for _, w := range want {
					if st, err := os.Stat(filepath.Join(dir, w)); err != nil || st.Size() == 0 {
						viols = append(viols, harness.Viol{Signature: "C14:success-without-artefact:" + name, Message: fmt.Sprintf("`gleece %s` exited 0 but %s is missing or empty", name, w)})
					}
				}
			}
		} else {
			rec.Label("exit-nonzero", 1)
			if strings.TrimSpace(res.Output()) == "" {
				viols = append(viols, harness.Viol{Signature: "C14:failure-without-message:" + name, Message: fmt.Sprintf("`gleece %s` exited %d with no output", name, res.Exit)})
			}
		}
	}
	return viols
}

// panicLines extracts the panic message and the first frames from a crash dump.
func panicLines(out string) string {
	lines := strings.Split(out, "\n")
	for i, l := range lines {
		if strings.HasPrefix(l, "panic:") || strings.HasPrefix(l, "fatal error:") {
			end := i + 8
			if end > len(lines) {
				end = len(lines)
			}
			return strings.Join(lines[i:end], " | ")
		}
	}
	return ""
}

// crashSite names the first gleece frame of a goroutine dump (stable across inputs).
func crashSite(out string) string {
	for _, l := range strings.Split(out, "\n") {
		if strings.Contains(l, "gopher-fleece/gleece") && strings.Contains(l, "(") && !strings.HasPrefix(l, "\t") {
			if i := strings.LastIndex(l, "("); i > 0 {
				l = l[:i]
			}
			if i := strings.LastIndex(l, "/"); i >= 0 {
				l = l[i+1:]
			}
			return l
		}
	}
	return "unknown"
}

func c14Classify(m c14Model) harness.Class {
	_, labels := c14Decorate(m)
	c := harness.Class{Labels: dedupe(labels)}
	if m.Mutation != nil {
		c.Labels = append(c.Labels, "config-mutation")
	}
	c.NonTrivial = len(labels) > 0
	return c
}

func dedupe(in []string) []string {
	seen := map[string]bool{}
	var out []string
	for _, s := range in {
		if !seen[s] {
			seen[s] = true
			out = append(out, s)
		}
	}
	return out
}

// c14Sweep walks the catalogues instead of sampling them: one generated base project, one decoration at a time, every
// entry of the field, signature, annotation-line and tag catalogues once.
func c14Sweep() []c14Model {
	var base c14Model
	for ex := 1; ex < 40; ex++ { // a base project with a struct in models and at least two methods
		base = rapid.Custom(c14Gen).Example(ex)
		structs, methods := 0, 0
		for _, t := range base.Project.Types {
			if t.Kind == "struct" && t.Pkg == "models" && len(t.Fields) > 0 {
				structs++
			}
		}
		for _, c := range base.Project.Controllers {
			methods += len(c.Methods)
		}
		if structs > 0 && methods >= 2 {
			break
		}
	}
	base.Mutation = nil
	var out []c14Model
	add := func(kind string, n int) {
		for v := 0; v < n; v++ {
			m := base
			m.Decos = []c14Deco{{Kind: kind, Target: 0, Variant: v}}
			out = append(out, m)
		}
	}
	add("field", len(c14FieldLines))
	add("sig", len(c14Sigs))
	add("doc", len(c14DocLines))
	add("tag", len(c14Tags))
	return out
}

func TestC14CLI(t *testing.T) {
	harness.Run(t, harness.Prop[c14Model]{
		ID:       "C14",
		Gen:      c14Gen,
		Sweep:    c14Sweep,
		Check:    c14Check,
		Classify: c14Classify,
		Canon: func(m c14Model) string {
			b, _ := json.Marshal(m)
			return string(b)
		},
		Sample: func(m c14Model) any {
			_, labels := c14Decorate(m)
			return map[string]any{"decorations": m.Decos, "labels": dedupe(labels), "config_mutation": m.Mutation}
		},
		Rule: "process level: rapid draws a compilable project (full profile) and 1-4 decorations from catalogues of unsupported constructs (35 struct-field shapes: funcs, channels, inline " +
			"structs, interfaces, fixed arrays, generics with declared arguments, mutually recursive and self-embedding types, unsafe.Pointer, odd map keys, hostile struct tags; 33 method " +
			"signatures: generic/func/chan/array/variadic/unnamed parameters, named and malformed result lists; 48 malformed or unusual annotation lines: broken JSON5, wrong property types, " +
			"empty/lower-case/unsupported verbs, broken route templates, huge values, duplicates; arbitrary validate tags; duplicate operation ids; near-empty and build-ignored files; dot and " +
			"aliased imports), sometimes plus a configuration mutation from C20's catalogue; the REAL CLI binary runs `generate spec`, `generate routes`, `generate spec-and-routes` and " +
			"`dump graph` in fresh processes under a 120 s guard. Oracle: exit 0 with the command's artefacts present, or exit != 0 with a non-empty message; never `panic:`/goroutine dump/" +
			"fatal error/exit status 2. A crash is only reported after `go vet` confirms the decorated project compiles. Non-trivial = at least one decoration applied; distinct = canonical JSON.",
		Assume: []string{"a time-out is reported as inconclusive, never as a violation", "crashes are classified by the first gleece frame in the goroutine dump"},
		Floors: map[string]float64{"nontrivial": 0.8},
	})
}
