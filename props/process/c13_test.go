package process

import (
	"bytes"
	"encoding/json"
	"fmt"
	"os"
	"path/filepath"
	"strings"
	"testing"
	"time"

	"pgregory.net/rapid"

	"verif/internal/ev"
	"verif/internal/harness"
	"verif/internal/lab"
	"verif/internal/projgen"
)

// C13 — output is a deterministic function of project and configuration.
//
// Every run is a fresh process of the real CLI. The schedule dimension is generated two ways:
// natural runs (Go randomises map iteration per process) and runs of the `-tags verif` build
// with an explicit VERIF_ORDER that permutes the enumeration points gleece does not control.

type c13Model struct {
	Project *projgen.Project `json:"project"`
	Natural int              `json:"natural"` // number of natural runs
	Orders  []string         `json:"orders"`  // VERIF_ORDER values for the hooked build
}

var c13Profile = projgen.Profile{
	MaxControllers: 4, MinControllers: 2, MaxMethods: 5, MinMethods: 2, CtrlPackages: []string{"api", "api2", "internal/api3"},
	Hidden: true, Security: true, ExtraParams: 3, Types: true, TypePackages: []string{"models", "shared"},
	Validators: true, Responses: true, SharedPrefix: true, PtrParams: true, FormParams: true, SliceQuery: true,
	Experimental: true, // the experimental switches are configuration too (enum validators are emitted into the routes file)
}

func c13Gen(t *rapid.T) c13Model {
	p := projgen.GenProject(t, c13Profile)
	m := c13Model{Project: p, Natural: 3}
	if os.Getenv("VERIF_TIER") == "thorough" {
		m.Natural = 6
	}
	n := 3
	if os.Getenv("VERIF_TIER") == "thorough" {
		n = 9
	}
	m.Orders = []string{"reverse"}
	for i := 0; i < n-1; i++ {
		m.Orders = append(m.Orders, fmt.Sprint(rapid.IntRange(1, 1<<30).Draw(t, "order")))
	}
	return m
}

type c13Run struct {
	label  string
	spec   []byte
	routes []byte
	res    lab.CLIResult
}

func writeConfig(dir, name string, cfg projgen.Config) error {
	b, _ := json.MarshalIndent(cfg.ConfigJSON(), "", "\t")
	return os.WriteFile(filepath.Join(dir, name), b, 0o644)
}

func c13RunOnce(bin, dir string, cfg projgen.Config, label string, env []string) c13Run {
	cfg.RoutesOut = "./out/" + label + "/routes/gleece.go"
	cfg.SpecOut = "./out/" + label + "/openapi.json"
	cfgName := "gleece." + label + ".json"
	_ = writeConfig(dir, cfgName, cfg)
	r := c13Run{label: label}
	r.res = lab.RunCLI(bin, dir, 120*time.Second, env, "generate", "spec-and-routes", "-c", cfgName)
	r.spec, _ = os.ReadFile(filepath.Join(dir, cfg.SpecOut))
	r.routes, _ = os.ReadFile(filepath.Join(dir, cfg.RoutesOut))
	return r
}

func firstDiff(a, b []byte) string {
	la, lb := strings.Split(string(a), "\n"), strings.Split(string(b), "\n")
	for i := 0; i < len(la) || i < len(lb); i++ {
		var x, y string
		if i < len(la) {
			x = la[i]
		}
		if i < len(lb) {
			y = lb[i]
		}
		if x != y {
			return fmt.Sprintf("line %d: %q vs %q", i+1, strings.TrimSpace(x), strings.TrimSpace(y))
		}
	}
	return "no difference"
}

func c13Check(m c13Model, rec *ev.Recorder) []harness.Viol {
	bin, err := lab.BuildCLI("")
	if err != nil {
		rec.Inconclusive(err.Error())
		return nil
	}
	hooked, err := lab.BuildCLI("verif")
	if err != nil {
		rec.Inconclusive(err.Error())
		return nil
	}
	dir, err := lab.Scratch("c13-")
	if err != nil {
		rec.Inconclusive(err.Error())
		return nil
	}
	defer os.RemoveAll(dir)
	p := m.Project
	if _, err := p.WriteTo(dir, projgen.RenderOptions{}, lab.RepoRoot); err != nil {
		rec.Inconclusive(err.Error())
		return nil
	}
	cfg := p.Config
	cfg.SkipDate = true

	var runs []c13Run
	for i := 0; i < m.Natural; i++ {
		runs = append(runs, c13RunOnce(bin, dir, cfg, fmt.Sprintf("nat%d", i), nil))
	}
	for i, o := range m.Orders {
		runs = append(runs, c13RunOnce(hooked, dir, cfg, fmt.Sprintf("ord%d", i), []string{"VERIF_ORDER=" + o}))
	}
	rec.AddExtraInt("cli_runs", len(runs))
	base := runs[0]
	if base.res.TimedOut {
		rec.Inconclusive("CLI run exceeded the harness time limit")
		return nil
	}
	if base.res.Exit != 0 {
		rec.Label("rejected", 1)
		rec.SetExtra("last_rejection", tailStr(base.res.Output(), 400))
		return nil
	}
	rec.Label("accepted", 1)
	var viols []harness.Viol
	desc := "\n" + p.Describe()
	for _, r := range runs[1:] {
		kind := "natural-rerun"
		if strings.HasPrefix(r.label, "ord") {
			kind = "enumeration-order"
		}
		if r.res.Exit != base.res.Exit {
			viols = append(viols, harness.Viol{Signature: "C13:exit-status-differs:" + kind, Message: fmt.Sprintf("run %s exits %d, first run exited %d: %s", r.label, r.res.Exit, base.res.Exit, tailStr(r.res.Output(), 300))})
			continue
		}
		if !bytes.Equal(r.spec, base.spec) {
			viols = append(viols, harness.Viol{Signature: "C13:spec-differs:" + kind, Message: fmt.Sprintf("spec of run %s differs from the first run: %s%s", r.label, firstDiff(base.spec, r.spec), desc)})
		}
		if !bytes.Equal(r.routes, base.routes) {
			viols = append(viols, harness.Viol{Signature: "C13:routes-differ:" + kind, Message: fmt.Sprintf("routes file of run %s differs from the first run: %s%s", r.label, firstDiff(base.routes, r.routes), desc)})
		}
	}
	// the spec does not depend on the routing engine
	for _, e := range []string{"gin", "echo", "mux", "chi", "fiber"} {
		if e == cfg.Engine {
			continue
		}
		c2 := cfg
		c2.Engine = e
		r := c13RunOnce(bin, dir, c2, "eng-"+e, nil)
		rec.AddExtraInt("cli_runs", 1)
		if r.res.Exit != 0 {
			viols = append(viols, harness.Viol{Signature: "C13:engine-changes-acceptance", Message: fmt.Sprintf("engine %s: exit %d (engine %s: 0): %s", e, r.res.Exit, cfg.Engine, tailStr(r.res.Output(), 300))})
			continue
		}
		if !bytes.Equal(r.spec, base.spec) {
			viols = append(viols, harness.Viol{Signature: "C13:spec-depends-on-engine", Message: fmt.Sprintf("spec with engine %s differs from engine %s: %s", e, cfg.Engine, firstDiff(base.spec, r.spec))})
		}
	}
	// with the date comment on, two runs may differ in the generation-date line only
	c3 := cfg
	c3.SkipDate = false
	d1 := c13RunOnce(bin, dir, c3, "dated1", nil)
	d2 := c13RunOnce(bin, dir, c3, "dated2", nil)
	rec.AddExtraInt("cli_runs", 2)
	if d1.res.Exit == 0 && d2.res.Exit == 0 {
		la, lb := strings.Split(string(d1.routes), "\n"), strings.Split(string(d2.routes), "\n")
		dated := false
		for _, l := range la {
			if strings.HasPrefix(strings.TrimSpace(l), "Generated Date:") {
				dated = true
			}
		}
		if !dated {
			viols = append(viols, harness.Viol{Signature: "C13:date-comment-missing", Message: "skipGenerateDateComment=false but the routes file carries no 'Generated Date:' line"})
		}
		if len(la) != len(lb) {
			viols = append(viols, harness.Viol{Signature: "C13:dated-runs-differ-beyond-date-line", Message: fmt.Sprintf("line counts %d vs %d", len(la), len(lb))})
		} else {
			for i := range la {
				if la[i] != lb[i] && !strings.HasPrefix(strings.TrimSpace(lb[i]), "Generated Date:") {
					viols = append(viols, harness.Viol{Signature: "C13:dated-runs-differ-beyond-date-line", Message: fmt.Sprintf("line %d: %q vs %q", i+1, la[i], lb[i])})
					break
				}
			}
		}
	}
	return viols
}

func tailStr(s string, n int) string {
	if len(s) > n {
		return "…" + s[len(s)-n:]
	}
	return s
}

func c13Classify(m c13Model) harness.Class {
	p := m.Project
	typed := 0
	files := map[string]bool{}
	pkgs := map[string]bool{}
	for _, c := range p.Controllers {
		has := false
		pkgs[c.Pkg] = true
		for _, mm := range c.RealMethods() {
			files[c.Pkg+"/"+mm.File] = true
			for _, prm := range mm.Params {
				if prm.Type.Base().Kind == "named" {
					has = true
				}
			}
			if mm.Ret != nil && mm.Ret.Base().Kind == "named" {
				has = true
			}
		}
		if has {
			typed++
		}
	}
	c := harness.Class{}
	if typed >= 2 {
		c.Labels = append(c.Labels, "two-controllers-with-declared-types")
	}
	if len(files) >= 2 {
		c.Labels = append(c.Labels, "methods-in>=2-files")
	}
	if len(pkgs) >= 2 {
		c.Labels = append(c.Labels, "controllers-in>=2-packages")
	}
	c.NonTrivial = typed >= 2 && len(files) >= 2
	return c
}

func TestC13(t *testing.T) {
	harness.Run(t, harness.Prop[c13Model]{
		ID:       "C13",
		Gen:      c13Gen,
		Check:    c13Check,
		Classify: c13Classify,
		Sample: func(m c13Model) any {
			return map[string]any{"project": strings.Split(strings.TrimSpace(m.Project.Describe()), "\n"), "natural_runs": m.Natural, "order_seeds": m.Orders}
		},
		Rule: "rapid draws projects (1-4 controllers over up to 3 packages, methods spread over several files, parameters/results using structs, enums and aliases from two type packages so that " +
			"import serials matter). Each project is generated by the REAL CLI binary in fresh processes: N natural runs (Go randomises map iteration per process), M runs of the `-tags verif` " +
			"build with VERIF_ORDER=reverse|<drawn seed> that permutes source-file, node-by-kind, loaded-package and import-set enumeration, one run per other routing engine, and one run with the " +
			"date comment enabled. Oracle (differential): exit status, spec bytes and routes bytes identical across runs and orders; spec bytes identical across engines; with the date comment " +
			"only the 'Generated Date:' line differs. Non-trivial = >=2 controllers using declared (non-universe) types and methods in >=2 files; distinct = canonical JSON of project + order seeds.",
		Assume: []string{
			"the hooked build differs from the production build only by the identity/permute function at four enumeration points (commit listed in MANIFEST.hooks)",
			"a new map iteration elsewhere is reached only by the natural runs",
		},
		Floors: map[string]float64{"nontrivial": 0.3, "accepted": 0.9},
	})
}
