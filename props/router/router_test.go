package router

import (
	"bytes"
	"encoding/json"
	"fmt"
	"go/parser"
	"go/token"
	"os"
	"os/exec"
	"path/filepath"
	"regexp"
	"strings"
	"testing"
	"time"

	"pgregory.net/rapid"

	"verif/internal/ev"
	"verif/internal/harness"
	"verif/internal/known"
	"verif/internal/lab"
	"verif/internal/projgen"
)

// Router lab: a generated batch project -> five generated routers (real gleece, in-process)
// -> compile -> request-level property test inside the compiled harness.

type hViolation struct {
	Property  string          `json:"property"`
	Signature string          `json:"signature"`
	Message   string          `json:"message"`
	Request   json.RawMessage `json:"request"`
}

type hResults struct {
	Requests   int                 `json:"requests"`
	Labels     map[string]int      `json:"labels"`
	NTCounts   map[string][]uint64 `json:"nontrivial"`
	Violations []hViolation        `json:"violations"`
	Samples    []json.RawMessage   `json:"samples"`
}

type routerModel struct {
	Project *projgen.Project `json:"project"`
	Seed    uint64           `json:"seed"`
}

func genRouterModel(t *rapid.T) routerModel {
	return routerModel{Project: projgen.GenProject(t, projgen.RouterProfile), Seed: uint64(rapid.IntRange(1, 1<<30).Draw(t, "requestSeed"))}
}

func goEnv() []string {
	env := []string{}
	for _, e := range os.Environ() {
		if strings.HasPrefix(e, "GOFLAGS=") || strings.HasPrefix(e, "GOPROXY=") || strings.HasPrefix(e, "GOTOOLCHAIN=") || strings.HasPrefix(e, "GOSUMDB=") {
			continue
		}
		env = append(env, e)
	}
	env = append(env, "GOFLAGS=-mod=mod", "GOPROXY=off", "GOTOOLCHAIN=auto", "GONOSUMDB=pgregory.net")
	if c := os.Getenv("VERIF_PROJECT_GOCACHE"); c != "" {
		// thorough tier: what compiling the generated projects leaves behind goes to the run's scratch directory
		kept := env[:0:0]
		for _, e := range env {
			if !strings.HasPrefix(e, "GOCACHE=") {
				kept = append(kept, e)
			}
		}
		env = append(kept, "GOCACHE="+c)
	}
	return env
}

type built struct {
	dir     string
	res     *lab.Result
	vetErr  map[string]string // engine -> compiler output
	cleanup func()
}

// buildProject writes the project with tracing stubs, auth packages and harness, and lets the real
// gleece generate the five routers.
func buildProject(p *projgen.Project, rec *ev.Recorder, withHarness bool) (*built, error) {
	dir, err := lab.Scratch("router-")
	if err != nil {
		return nil, err
	}
	b := &built{dir: dir, vetErr: map[string]string{}, cleanup: func() {
		if keep := os.Getenv("VERIF_KEEP"); keep != "" { // development aid
			_ = os.RemoveAll(keep)
			_ = os.Rename(dir, keep)
			return
		}
		os.RemoveAll(dir)
	}}
	opts := projgen.RenderOptions{Body: projgen.TracingBody}
	if _, err := p.WriteTo(dir, opts, lab.RepoRoot); err != nil {
		b.cleanup()
		return nil, err
	}
	files, err := p.RouterFiles(projgen.HarnessSource)
	if err != nil {
		b.cleanup()
		return nil, fmt.Errorf("harness model: %w", err)
	}
	for rel, content := range files {
		if !withHarness && strings.HasPrefix(rel, "harness/") {
			continue
		}
		full := filepath.Join(dir, rel)
		_ = os.MkdirAll(filepath.Dir(full), 0o755)
		if err := os.WriteFile(full, []byte(content), 0o644); err != nil {
			b.cleanup()
			return nil, err
		}
	}
	// the harness needs rapid: extend go.mod / go.sum with the framework's own entries
	gm, _ := os.ReadFile(filepath.Join(dir, "go.mod"))
	gm = append(gm, []byte("\nrequire pgregory.net/rapid v1.3.0\n")...)
	_ = os.WriteFile(filepath.Join(dir, "go.mod"), gm, 0o644)
	if gs, err := os.ReadFile(filepath.Join(known.Root(), "go.sum")); err == nil {
		_ = os.WriteFile(filepath.Join(dir, "go.sum"), gs, 0o644)
	}
	b.res = lab.RunInProcess(dir, lab.Want{Engines: projgen.Engines, Versions: []string{"3.0.0"},
		AuthPkg: func(e string) string { return projgen.Module + "/auth" + e }})
	if b.res.Accepted() && withHarness {
		if err := cliRoutesForOneEngine(p, b, rec); err != nil {
			b.cleanup()
			return nil, err
		}
	}
	return b, nil
}

// cliRoutesForOneEngine replaces the routes file of one engine (a function of the project) by the one the real
// command `gleece generate spec-and-routes` writes. The in-process path gives every emission its own copy of the
// analysis result; the command does not, so whatever one emission does to the data the next one sees (and the
// order in which the command emits) is only visible through the command.
func cliRoutesForOneEngine(p *projgen.Project, b *built, rec *ev.Recorder) error {
	pb, _ := json.Marshal(p)
	e := projgen.Engines[int(ev.Hash(string(pb))%uint64(len(projgen.Engines)))]
	cfg := p.Config
	cfg.Engine = e
	cfg.RoutesOut = "./routes_" + e + "/gleece.go"
	cfg.AuthPkg = projgen.Module + "/auth" + e
	doc, _ := json.MarshalIndent(cfg.ConfigJSON(), "", "\t")
	cfgName := "gleece.cli." + e + ".json"
	if err := os.WriteFile(filepath.Join(b.dir, cfgName), doc, 0o644); err != nil {
		return err
	}
	bin, err := lab.BuildCLI("")
	if err != nil {
		return err
	}
	inProcess := b.res.Routes[e]
	cli := lab.RunCLI(bin, b.dir, 3*time.Minute, nil, "generate", "spec-and-routes", "-c", "./"+cfgName)
	if rec != nil {
		rec.Label("cli-routes-engine:"+e, 1)
	}
	if cli.TimedOut || cli.Exit != 0 {
		return fmt.Errorf("the in-process pipeline accepted the project but `gleece generate spec-and-routes` (engine %s) exited %d: %s", e, cli.Exit, tail(cli.Output(), 600))
	}
	out, err := os.ReadFile(filepath.Join(b.dir, "routes_"+e, "gleece.go"))
	if err != nil {
		return fmt.Errorf("`gleece generate spec-and-routes` exited 0 without writing the routes file: %v", err)
	}
	if rec != nil && string(out) != string(inProcess) {
		rec.Label("cli-routes-differ-from-in-process", 1)
	}
	return nil
}

func goRun(dir string, timeout time.Duration, env []string, args ...string) (string, error) {
	cmd := exec.Command("go", args...)
	cmd.Dir = dir
	cmd.Env = append(goEnv(), env...)
	var buf bytes.Buffer
	cmd.Stdout, cmd.Stderr = &buf, &buf
	done := make(chan error, 1)
	if err := cmd.Start(); err != nil {
		return "", err
	}
	go func() { done <- cmd.Wait() }()
	select {
	case err := <-done:
		return buf.String(), err
	case <-time.After(timeout):
		_ = cmd.Process.Kill()
		return buf.String(), fmt.Errorf("timed out after %s", timeout)
	}
}

// runHarness compiles and runs the request-level test inside the project.
func runHarness(b *built, mode string, seed uint64, requests int) (*hResults, string, error) {
	out := filepath.Join(b.dir, "harness_results.json")
	log, err := goRun(b.dir, 20*time.Minute, []string{"HARNESS_OUT=" + out, "HARNESS_MODE=" + mode},
		"test", "./harness/", "-run", "TestHarness", "-count=1", "-rapid.checks", fmt.Sprint(requests), "-rapid.seed", fmt.Sprint(seed), "-rapid.nofailfile", "-rapid.shrinktime", "20s")
	data, rerr := os.ReadFile(out)
	if rerr != nil {
		return nil, log, fmt.Errorf("harness produced no results (%v): %v", rerr, err)
	}
	var res hResults
	if jerr := json.Unmarshal(data, &res); jerr != nil {
		return nil, log, jerr
	}
	if err != nil && len(res.Violations) == 0 {
		return nil, log, fmt.Errorf("the harness failed without recording a violation: %v", err)
	}
	return &res, log, nil
}

func requestBudget() int {
	if os.Getenv("VERIF_TIER") == "thorough" {
		return 4000
	}
	return 1500
}

// routerCheck is shared by C02, C03, C05 and C12: same machinery, different request emphasis,
// and only the violations of the property under check count.
func routerCheck(prop string) func(m routerModel, rec *ev.Recorder) []harness.Viol {
	return func(m routerModel, rec *ev.Recorder) []harness.Viol {
		b, err := buildProject(m.Project, rec, true)
		if err != nil {
			rec.Inconclusive("router project: " + err.Error())
			return nil
		}
		defer b.cleanup()
		if b.res.Panic != "" {
			rec.Label("gleece-panicked (reported under C14)", 1)
			return nil
		}
		if !b.res.Accepted() {
			rec.Label("rejected", 1)
			rec.SetExtra("last_rejection", tail(fmt.Sprint(b.res.RunErr, b.res.ConfigErr), 500))
			return nil
		}
		for _, e := range projgen.Engines {
			if b.res.RoutesErr[e] != nil {
				rec.Label("routes-generation-failed", 1)
				rec.SetExtra("last_routes_error", tail(b.res.RoutesErr[e].Error(), 500))
				return nil
			}
		}
		rec.Label("accepted", 1)
		hres, log, err := runHarness(b, prop, m.Seed, requestBudget())
		if err != nil {
			if strings.Contains(log, "[build failed]") || strings.Contains(log, "cannot use") || strings.Contains(log, "undefined:") {
				// Nothing can be observed about routing, gating or binding when the routers do not build. The shapes known
				// to produce uncompilable code are kept out of this lab's profile, so on the unchanged tree this never
				// happens; when it does, the run decides nothing (C09 is the property that is broken).
				rec.Label("generated-code-does-not-compile (reported under C09)", 1)
				rec.SetExtra("last_compile_error", tail(log, 1500))
				rec.Inconclusive("the generated routers of a project do not compile, so no request could be sent (C09's business): " + tail(log, 400))
				return nil
			}
			rec.Inconclusive("harness run: " + err.Error() + "\n" + tail(log, 1500))
			return nil
		}
		rec.AddEvaluations(hres.Requests)
		rec.Label("harness-ran", 1)
		rec.Label("requests", hres.Requests)
		for k, v := range hres.Labels {
			rec.Label("req:"+k, v)
		}
		for _, h := range hres.NTCounts[prop] {
			rec.NonTrivialExtra(fmt.Sprintf("%s-%d", prop, h))
		}
		if rec.WantSample() && len(hres.Samples) > 0 {
			rec.Sample(map[string]any{"routes": strings.Split(strings.TrimSpace(m.Project.Describe()), "\n"), "requests": hres.Samples})
		}
		var viols []harness.Viol
		seen := map[string]bool{}
		for i := len(hres.Violations) - 1; i >= 0; i-- { // the last one is the shrunk one
			v := hres.Violations[i]
			if v.Property != prop || seen[v.Signature] {
				continue
			}
			seen[v.Signature] = true
			viols = append(viols, harness.Viol{Signature: v.Signature, Message: v.Message + "\nrequest: " + string(v.Request)})
		}
		for _, v := range hres.Violations {
			if v.Property != prop {
				rec.Label("violation-of-"+v.Property+"-seen (reported by that check)", 1)
			}
		}
		return viols
	}
}

func tail(s string, n int) string {
	if len(s) > n {
		return "…" + s[len(s)-n:]
	}
	return s
}

func routerClassify(m routerModel) harness.Class {
	p := m.Project
	c := harness.Class{}
	hidden, paramPrefix, secured, inherited := false, false, 0, false
	for _, ctl := range p.Controllers {
		for _, mm := range ctl.RealMethods() {
			if mm.Hidden {
				hidden = true
			}
			if strings.Contains(mm.Route, "{") {
				paramPrefix = true
			}
			if len(p.EffectiveSecurity(ctl, mm)) > 0 {
				secured++
				if len(mm.Security) == 0 {
					inherited = true
				}
			}
		}
	}
	if hidden {
		c.Labels = append(c.Labels, "has-hidden-route")
	}
	if paramPrefix {
		c.Labels = append(c.Labels, "has-parameterised-path")
	}
	if secured > 0 {
		c.Labels = append(c.Labels, "has-secured-route")
	}
	if inherited {
		c.Labels = append(c.Labels, "security-inherited")
	}
	c.NonTrivial = hidden && paramPrefix && secured > 0
	return c
}

func routerProp(id, rule string, assume []string) harness.Prop[routerModel] {
	return harness.Prop[routerModel]{
		ID:       id,
		Gen:      genRouterModel,
		Check:    routerCheck(id),
		Classify: routerClassify,
		Canon: func(m routerModel) string {
			b, _ := json.Marshal(m)
			return string(b)
		},
		Sample: func(m routerModel) any {
			return map[string]any{"routes": strings.Split(strings.TrimSpace(m.Project.Describe()), "\n"), "requestSeed": m.Seed}
		},
		Rule:   rule,
		Assume: assume,
		// evaluations counts requests, so floors are tiny fractions: what matters is that they are not zero
		Floors: map[string]float64{"accepted": 0.0000001, "harness-ran": 0.0000001},
	}
}

const labRule = "Router lab: rapid draws a BATCH project (1-4 controllers over up to 3 packages, up to 8 routes each: all five verbs, templates with URL parameters and slash noise, shared " +
	"prefixes, hidden/deprecated routes, decoy methods, three security levels, parameters over every primitive width/enums/aliases/query slices/pointers in path, query, header, form and JSON " +
	"bodies, context parameters, validators, value/custom-error/no-value results); the REAL gleece generates the five routers in-process; controller stubs record {controller, method, " +
	"arguments}, five authorization packages record {scheme, scopes} and answer per policy; a harness compiled inside the project mounts gin, echo, mux, chi and fiber (httptest / app.Test) " +
	"and runs a second-level rapid.Check over REQUESTS with the route model (written by the framework, not by gleece) as oracle. "

var labAssume = []string{
	"path values use unreserved characters only and header values are non-empty (engine-specific decoding: findings F-C12-1, F-C12-2)",
	"negative probes never differ from a served path only by letter case or a trailing slash (engine configuration, not gleece)",
	"an absent optional pointer parameter that carries a validator, and slice-level validators, are left unconstrained",
	"evaluations counts requests (each executed on five engines); distinct_nontrivial counts distinct non-trivial requests",
}

func TestC02(t *testing.T) {
	harness.Run(t, routerProp("C02", labRule+"C02 emphasis: per modelled route one positive probe (exactly one call of that controller.method on every engine) and negative probes obtained by "+
		"mutation (another verb, extra/missing/changed segment, another controller's prefix, the would-be path of every decoy method) which must reach NO controller on any engine (status unconstrained). "+
		"Non-trivial request = negative probe, or positive probe of a hidden or parameterised route; distinct = hash of the request.", labAssume))
}

func TestC03(t *testing.T) {
	harness.Run(t, routerProp("C03", labRule+"C03 emphasis: per request a drawn authorization POLICY (scheme -> approve | refuse with status 401/403/418, message or custom payload) combined with valid or "+
		"deliberately invalid parameters. Oracle from the trace: a controller call only if some alternative of the model's effective security is fully approved, approvals precede the call; the "+
		"checks consulted are the prefix-closed walk of the alternatives in order (same schemes and scopes); when every alternative is refused no call, status of the last refusal, message or custom "+
		"payload delivered, and never 422 (gate precedes parsing); unsecured routes consult nothing. The refuse-everything sweep makes every router present its full list (C04's enforced half). "+
		"Non-trivial request = secured route with >=2 alternatives, or all refused, or invalid parameters; distinct = hash of the request.", labAssume))
}

func TestC05(t *testing.T) {
	harness.Run(t, routerProp("C05", labRule+"C05 emphasis: every parameter independently present-valid (typed generators: boundary integers of the declared width, float edge cases, unicode and URL-reserved "+
		"characters in query/form/body, validator-satisfying values), absent, ill-typed (12x, overflow for the width, -1 for unsigned, 1.5 for integers) or validator-violating, encoded by the standard "+
		"library per location. Oracle: all inputs valid => exactly one call whose recorded arguments equal the sent values position by position (JSON comparison; floats as ParseFloat(sent,width); "+
		"nil iff an optional pointer is absent; context non-nil); otherwise 422 and no call. Non-trivial request = >=3 parameters in >=2 locations with a special value, or a negative case; "+
		"distinct = hash of the request.", labAssume))
}

func TestC12(t *testing.T) {
	harness.Run(t, routerProp("C12", labRule+"C12 emphasis: requests to annotated routes of every kind (valid, missing/ill-typed/validator-violating parameters, malformed bodies, refusals, operation errors of "+
		"plain and custom error types, custom status codes set by the controller). Oracle (differential): the five tuples (controller call or none, method, decoded arguments, status, JSON-decoded "+
		"body, content-type main type) are equal; any disagreement names the odd engine. Non-trivial request = not a plain success or carrying special characters; distinct = hash of the request.", labAssume))
}

// ---- C09 ---------------------------------------------------------------------------------

var c09Profile = func() projgen.Profile {
	pf := projgen.FullProfile
	pf.MaxControllers, pf.MaxMethods = 3, 4
	pf.ExtraParams = 6 // long signatures: runs of names declared together with further parameters after them
	pf.CollidingNames = true
	pf.Experimental = true
	pf.NoNamedInMaps = true
	return pf
}()

type c09Failure struct {
	sig, msg string
}

// c09Generate writes the project, lets gleece generate the five routers and type-checks them.
func c09Generate(p *projgen.Project, rec *ev.Recorder) (status string, fails []c09Failure, files int, err error) {
	dir, err := lab.Scratch("c09-")
	if err != nil {
		return "", nil, 0, err
	}
	defer os.RemoveAll(dir)
	if _, err := p.WriteTo(dir, projgen.RenderOptions{}, lab.RepoRoot); err != nil {
		return "", nil, 0, err
	}
	for rel, content := range projgen.SupportFiles() {
		full := filepath.Join(dir, rel)
		_ = os.MkdirAll(filepath.Dir(full), 0o755)
		_ = os.WriteFile(full, []byte(content), 0o644)
	}
	pkgName := p.Config.PackageName
	res := lab.RunInProcess(dir, lab.Want{Engines: projgen.Engines, AuthPkg: func(e string) string { return projgen.Module + "/auth" + e }})
	if res.Panic != "" {
		return "panic", nil, 0, nil
	}
	if !res.Accepted() {
		if rec != nil {
			rec.SetExtra("last_rejection", tail(fmt.Sprint(res.RunErr, res.ConfigErr), 400))
		}
		return "rejected", nil, 0, nil
	}
	add := func(sig, format string, a ...any) {
		fails = append(fails, c09Failure{"C09:" + sig, fmt.Sprintf(format, a...) + "\n" + p.Describe()})
	}
	// One more file, written by the real `gleece generate spec-and-routes` for one engine (a function of the project): the
	// command emits several artefacts from one analysis result, in its own order, which the library calls above do not.
	engines := append([]string(nil), projgen.Engines...)
	if bin, berr := lab.BuildCLI(""); berr == nil {
		pb, _ := json.Marshal(p)
		e := projgen.Engines[int(ev.Hash(string(pb))%uint64(len(projgen.Engines)))]
		cfg := p.Config
		cfg.Engine, cfg.RoutesOut, cfg.AuthPkg = e, "./routes_"+e+"cli/gleece.go", projgen.Module+"/auth"+e
		doc, _ := json.MarshalIndent(cfg.ConfigJSON(), "", "\t")
		_ = os.WriteFile(filepath.Join(dir, "gleece.cli.json"), doc, 0o644)
		cli := lab.RunCLI(bin, dir, 3*time.Minute, nil, "generate", "spec-and-routes", "-c", "./gleece.cli.json")
		if out, rerr := os.ReadFile(filepath.Join(dir, "routes_"+e+"cli", "gleece.go")); !cli.TimedOut && cli.Exit == 0 && rerr == nil {
			res.Routes[e+"cli"] = out
			engines = append(engines, e+"cli")
			if rec != nil {
				rec.Label("cli-written-routes-file-checked", 1)
			}
		} else if rec != nil {
			rec.Label("cli-did-not-write-routes", 1)
		}
	}
	for _, e := range engines {
		src, ok := res.Routes[e]
		if !ok {
			if res.RoutesErr[e] != nil {
				if _, err := os.Stat(filepath.Join(dir, "routes_"+e, "gleece.go")); err == nil {
					add("file-written-despite-error:"+e, "GenerateRoutes failed (%v) yet a routes file exists", res.RoutesErr[e])
				}
			}
			continue
		}
		files++
		fset := token.NewFileSet()
		f, perr := parser.ParseFile(fset, "gleece.go", src, parser.ParseComments)
		if perr != nil {
			line := ""
			if m := regexp.MustCompile(`gleece\.go:(\d+):`).FindStringSubmatch(perr.Error()); m != nil {
				var n int
				fmt.Sscan(m[1], &n)
				if ls := strings.Split(string(src), "\n"); n >= 1 && n <= len(ls) {
					line = strings.TrimSpace(ls[n-1])
				}
			}
			add("not-parseable:"+parseClass(line), "the %s routes file is not syntactically valid Go: %v\noffending line: %s", e, perr, line)
			continue
		}
		want := "routes"
		if pkgName != "" {
			want = pkgName
		}
		if f.Name.Name != want {
			add("package-clause", "%s routes file is in package %q, configured %q", e, f.Name.Name, want)
		}
		out, err := goRun(dir, 10*time.Minute, nil, "vet", "./routes_"+e+"/")
		if err != nil {
			add("does-not-compile:"+compileClass(out), "the generated %s routes file does not type-check:\n%s", e, tail(out, 1800))
			continue
		}
		if outFmt, _ := exec.Command("gofmt", "-l", filepath.Join(dir, "routes_"+e, "gleece.go")).Output(); len(bytes.TrimSpace(outFmt)) > 0 {
			add("not-gofmt-formatted", "gofmt -l lists the generated %s routes file", e)
		}
	}
	return "accepted", fails, files, nil
}

func c09Check(p *projgen.Project, rec *ev.Recorder) []harness.Viol {
	status, fails, files, err := c09Generate(p, rec)
	if err != nil {
		rec.Inconclusive(err.Error())
		return nil
	}
	switch status {
	case "panic":
		rec.Label("gleece-panicked (reported under C14)", 1)
		return nil
	case "rejected":
		rec.Label("rejected", 1)
		return nil
	}
	rec.Label("accepted", 1)
	rec.AddExtraInt("routes_files_checked", files)
	broken := false
	for _, f := range fails {
		if strings.Contains(f.sig, "does-not-compile") || strings.Contains(f.sig, "not-parseable") {
			broken = true
		}
	}
	stillBroken := func(fs []c09Failure) bool {
		for _, f := range fs {
			if strings.Contains(f.sig, "does-not-compile") || strings.Contains(f.sig, "not-parseable") {
				return true
			}
		}
		return false
	}
	if broken {
		// attribution by experiment, first candidate: two parameters of one method whose names coincide after the
		// templates' lower-camel-casing (user_id and userId both become userId...RawPtr)
		if apart, changed := projgen.RenameCamelTwins(p); changed {
			if st2, fails2, _, err2 := c09Generate(apart, nil); err2 == nil && st2 == "accepted" {
				if !stillBroken(fails2) {
					return []harness.Viol{{Signature: "C09:does-not-compile:parameters-collide-after-camel-casing",
						Message: "the generated code compiles once parameters whose names differ only by underscores/case are renamed apart; original failure: " + fails[0].msg}}
				}
				p, fails = apart, fails2 // keep looking at what is left
			}
		}
	}
	if broken {
		// second candidate: is a parameter named like a handler-local identifier to blame?
		if renamed, changed := projgen.RenameColliding(p); changed {
			if st2, fails2, _, err2 := c09Generate(renamed, nil); err2 == nil && st2 == "accepted" {
				still := false
				for _, f := range fails2 {
					if strings.Contains(f.sig, "does-not-compile") || strings.Contains(f.sig, "not-parseable") {
						still = true
					}
				}
				if !still {
					return []harness.Viol{{Signature: "C09:does-not-compile:parameter-name-shadows-handler-identifier",
						Message: "the generated code compiles once the parameters named like handler-local identifiers are renamed; original failure: " + fails[0].msg}}
				}
				fails = fails2
				rec.Label("compile-failure-survives-renaming", 1)
			}
		}
	}
	seen := map[string]bool{}
	var viols []harness.Viol
	for _, f := range fails {
		if !seen[f.sig] {
			seen[f.sig] = true
			viols = append(viols, harness.Viol{Signature: f.sig, Message: f.msg})
		}
	}
	return viols
}

// compileClass condenses a compiler message into a stable class (kind + offending identifier).
func compileClass(out string) string {
	ident := regexp.MustCompile("(?:cannot use|redeclared[^:]*:|undefined:|declared and not used:|no new variables[^:]*:)\\s+([A-Za-z_][A-Za-z0-9_.]*)")
	for _, l := range strings.Split(out, "\n") {
		kind := ""
		switch {
		case strings.Contains(l, "redeclared"):
			kind = "redeclared"
		case strings.Contains(l, "imported and not used"):
			kind = "unused-import"
		case strings.Contains(l, "undefined:"):
			kind = "undefined"
		case strings.Contains(l, "cannot use"):
			kind = "type-mismatch"
		case strings.Contains(l, "declared and not used"):
			kind = "unused-variable"
		case strings.Contains(l, "no new variables"):
			kind = "no-new-variables"
		case strings.Contains(l, "syntax error") || strings.Contains(l, "expected"):
			kind = "syntax"
		case strings.Contains(l, "is not a type") || strings.Contains(l, "not an expression") || strings.Contains(l, "invalid operation") || strings.Contains(l, "mismatched types"):
			kind = "invalid-expression"
		}
		if kind != "" {
			if m := ident.FindStringSubmatch(l); m != nil {
				return kind + ":" + m[1]
			}
			return kind
		}
	}
	return "other"
}

// parseClass names what kind of text broke the parse.
func parseClass(line string) string {
	switch {
	case strings.Contains(line, "map["):
		return "map-type-in-identifier"
	case strings.Contains(line, "[]"):
		return "slice-type-in-identifier"
	case strings.Contains(line, "*"):
		return "pointer-in-identifier"
	}
	return "other"
}

func c09Classify(p *projgen.Project) harness.Class {
	pkgs := map[string]bool{}
	for _, ctl := range p.Controllers {
		for _, m := range ctl.RealMethods() {
			for _, prm := range m.Params {
				if b := prm.Type.Base(); b.Kind == "named" {
					pkgs[b.Pkg] = true
				}
			}
			if m.Ret != nil {
				if b := m.Ret.Base(); b.Kind == "named" {
					pkgs[b.Pkg] = true
				}
			}
		}
	}
	c := harness.Class{}
	if len(pkgs) >= 2 {
		c.Labels = append(c.Labels, "types-from>=2-packages")
	}
	if p.Config.TopLevelEnum || p.Config.EnumValidator || p.Config.ValidateResp {
		c.Labels = append(c.Labels, "experimental-or-response-validation")
	}
	c.NonTrivial = len(pkgs) >= 2 || p.Config.TopLevelEnum || p.Config.EnumValidator || p.Config.ValidateResp
	return c
}

func TestC09(t *testing.T) {
	harness.Run(t, harness.Prop[*projgen.Project]{
		ID:       "C09",
		Gen:      func(t *rapid.T) *projgen.Project { return projgen.GenProject(t, c09Profile) },
		Check:    c09Check,
		Classify: c09Classify,
		Canon: func(p *projgen.Project) string {
			b, _ := json.Marshal(p)
			return string(b)
		},
		Sample: func(p *projgen.Project) any { return strings.Split(strings.TrimSpace(p.Describe()), "\n") },
		Rule: "rapid draws projects biased to what the templates concatenate: parameter names that collide with handler locals or with each other after lower-camel-casing, types from several " +
			"packages behind slices/pointers/maps, enums and aliases as parameters, pointer and value custom errors, every result shape, validateTopLevelOnlyEnum x generateEnumValidator x " +
			"validateResponsePayload, configured package names; the REAL gleece generates all five engines in-process. Oracle: whenever generation succeeds the file parses (go/parser), is in the " +
			"configured package, and `go vet` type-checks the package against the engine, the user's controller packages and authorization package; gofmt -l is evaluated; a failed generation " +
			"leaves no file. Non-trivial = types from >=2 packages or an experimental flag / response validation on; distinct = canonical JSON.",
		Assume: []string{"the authorization packages and controller stubs are generated by the framework and compile on their own (checked by the same go vet run)"},
		Floors: map[string]float64{"accepted": 0.7},
	})
}
