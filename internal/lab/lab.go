// Package lab runs gleece on a materialised project: in-process through the same public
// entry points the CLI uses, or as the real CLI binary in a fresh subprocess.
package lab

import (
	"bytes"
	"context"
	"encoding/json"
	"fmt"
	"io"
	"log"
	"os"
	"os/exec"
	"path/filepath"
	"runtime/debug"
	"strings"
	"sync"
	"time"

	"github.com/gopher-fleece/gleece/v2/cmd"
	"github.com/gopher-fleece/gleece/v2/core/pipeline"
	"github.com/gopher-fleece/gleece/v2/core/validators/diagnostics"
	"github.com/gopher-fleece/gleece/v2/definitions"
	"github.com/gopher-fleece/gleece/v2/generator/routes"
	"github.com/gopher-fleece/gleece/v2/generator/swagen"
	"github.com/gopher-fleece/gleece/v2/infrastructure/logger"
)

const RepoRoot = "/repo"

var quietOnce sync.Once

func Quiet() {
	quietOnce.Do(func() {
		log.SetOutput(io.Discard)
		logger.SetLogLevel(logger.LogLevelNone)
	})
}

// Scratch returns a fresh directory for one project; the caller removes it.
func Scratch(prefix string) (string, error) {
	base := os.Getenv("VERIF_SCRATCH")
	if base == "" {
		base = os.TempDir()
	}
	return os.MkdirTemp(base, prefix)
}

type Want struct {
	Versions []string                                           // OpenAPI versions to emit ("3.0.0", "3.1.0")
	Engines  []string                                           // routing engines to emit
	Diags    bool                                               // also collect Validate() diagnostics
	AuthPkg  func(engine string) string                         // per-engine authorization package (router lab)
	Tweak    func(cfg *definitions.GleeceConfig, engine string) // last-minute per-engine config changes
}

type Result struct {
	Config      *definitions.GleeceConfig
	ConfigErr   error
	RunErr      error // pipeline.Run(): graph + validation + reduction, exactly the CLI's path
	Meta        *pipeline.GleeceFlattenedMetadata
	Diags       []diagnostics.EntityDiagnostic
	ValidateErr error
	Spec        map[string][]byte
	SpecErr     map[string]error
	Routes      map[string][]byte
	RoutesErr   map[string]error
	Panic       string // non-empty when any stage panicked (stage: value + stack)
	PanicStage  string // load-config | pipeline | validate | spec-<version> | routes-<engine>
	Pipe        *pipeline.GleecePipeline
}

func (r *Result) Accepted() bool { return r.ConfigErr == nil && r.RunErr == nil && r.Panic == "" }

func guard(stage string, res *Result, fn func()) {
	defer func() {
		if rec := recover(); rec != nil && res.Panic == "" {
			res.Panic = fmt.Sprintf("%s: %v\n%s", stage, rec, debug.Stack())
			res.PanicStage = stage
		}
	}()
	fn()
}

func cloneModels(m definitions.Models) definitions.Models {
	b, _ := json.Marshal(m)
	var out definitions.Models
	_ = json.Unmarshal(b, &out)
	return out
}

func cloneFlat(f []definitions.ControllerMetadata) []definitions.ControllerMetadata {
	b, _ := json.Marshal(f)
	var out []definitions.ControllerMetadata
	_ = json.Unmarshal(b, &out)
	return out
}

// RunInProcess changes the working directory to dir (globs and package loading are relative
// to it), so it must not run concurrently with another call in the same process.
func RunInProcess(dir string, want Want) *Result {
	Quiet()
	res := &Result{Spec: map[string][]byte{}, SpecErr: map[string]error{}, Routes: map[string][]byte{}, RoutesErr: map[string]error{}}
	old, _ := os.Getwd()
	if err := os.Chdir(dir); err != nil {
		res.ConfigErr = err
		return res
	}
	defer os.Chdir(old)

	guard("load-config", res, func() { res.Config, res.ConfigErr = cmd.LoadGleeceConfig("./gleece.config.json") })
	if res.ConfigErr != nil || res.Panic != "" {
		return res
	}
	guard("pipeline", res, func() {
		pipe, err := pipeline.NewGleecePipeline(res.Config)
		if err != nil {
			res.RunErr = err
			return
		}
		res.Pipe = &pipe
		meta, err := pipe.Run()
		if err != nil {
			res.RunErr = err
		} else {
			res.Meta = &meta
		}
	})
	if want.Diags && res.Pipe != nil && res.Panic == "" {
		guard("validate", res, func() { res.Diags, res.ValidateErr = res.Pipe.Validate() })
	}
	if res.Meta == nil || res.Panic != "" {
		return res
	}
	for _, v := range want.Versions {
		v := v
		guard("spec-"+v, res, func() {
			cfg := res.Config.OpenAPIGeneratorConfig
			cfg.OpenAPI = v
			models := cloneModels(res.Meta.Models)
			// the emitters rewrite parts of the metadata they are given (e.g. the error type name of a route);
			// every emission gets its own copy so that one artefact cannot influence the next
			out, err := swagen.GenerateSpec(&cfg, cloneFlat(res.Meta.Flat), &models, res.Meta.PlainErrorPresent)
			if err != nil {
				res.SpecErr[v] = err
			} else {
				res.Spec[v] = out
			}
		})
	}
	for _, e := range want.Engines {
		e := e
		guard("routes-"+e, res, func() {
			cfg := *res.Config
			cfg.RoutesConfig.Engine = definitions.RoutingEngineType(e)
			cfg.RoutesConfig.OutputPath = filepath.Join("routes_"+e, "gleece.go")
			if want.AuthPkg != nil {
				cfg.RoutesConfig.AuthorizationConfig.AuthFileFullPackageName = want.AuthPkg(e)
			}
			if want.Tweak != nil {
				want.Tweak(&cfg, e)
			}
			if err := routes.GenerateRoutes(&cfg, *res.Meta); err != nil {
				res.RoutesErr[e] = err
				return
			}
			b, err := os.ReadFile(cfg.RoutesConfig.OutputPath)
			if err != nil {
				res.RoutesErr[e] = err
				return
			}
			res.Routes[e] = b
		})
	}
	return res
}

// ---- CLI ---------------------------------------------------------------------------

var (
	cliMu    sync.Mutex
	cliPaths = map[string]string{}
	cliErrs  = map[string]error{}
)

func goEnv() []string {
	env := []string{}
	for _, e := range os.Environ() {
		if strings.HasPrefix(e, "GOSUMDB=") || strings.HasPrefix(e, "GOFLAGS=") || strings.HasPrefix(e, "GOPROXY=") || strings.HasPrefix(e, "GOTOOLCHAIN=") {
			continue
		}
		env = append(env, e)
	}
	return append(env, "GOFLAGS=-mod=mod", "GOPROXY=off", "GOTOOLCHAIN=auto")
}

// BuildCLI builds the real gleece binary from /repo's working tree (once per process and tag set).
func BuildCLI(tags string) (string, error) {
	cliMu.Lock()
	defer cliMu.Unlock()
	if p, ok := cliPaths[tags]; ok {
		return p, cliErrs[tags]
	}
	dir, err := Scratch("cli-")
	if err != nil {
		return "", err
	}
	path := filepath.Join(dir, "gleece")
	args := []string{"build", "-o", path}
	if tags != "" {
		args = append(args, "-tags", tags)
	}
	args = append(args, ".")
	c := exec.Command("go", args...)
	c.Dir = RepoRoot
	c.Env = goEnv()
	var berr error
	if out, err := c.CombinedOutput(); err != nil {
		berr = fmt.Errorf("building the gleece CLI failed: %v\n%s", err, out)
	}
	cliPaths[tags], cliErrs[tags] = path, berr
	return path, berr
}

type CLIResult struct {
	Exit     int
	Stdout   string
	Stderr   string
	TimedOut bool
	Wall     time.Duration
}

func (r CLIResult) Output() string { return r.Stdout + r.Stderr }

// Crashed reports a Go runtime crash (panic / fatal error), which is never an allowed outcome.
func (r CLIResult) Crashed() bool {
	o := r.Output()
	return strings.Contains(o, "panic:") || strings.Contains(o, "goroutine 1 [running]") || strings.Contains(o, "fatal error:") ||
		strings.Contains(o, "SIGSEGV") || r.Exit == 2
}

// RunCLI runs `gleece <args...>` with cwd=dir under a wall-clock guard.
func RunCLI(bin, dir string, timeout time.Duration, extraEnv []string, args ...string) CLIResult {
	ctx, cancel := context.WithTimeout(context.Background(), timeout)
	defer cancel()
	c := exec.CommandContext(ctx, bin, args...)
	c.Dir = dir
	c.Env = append(goEnv(), extraEnv...)
	var so, se bytes.Buffer
	c.Stdout, c.Stderr = &so, &se
	c.WaitDelay = 3 * time.Second
	start := time.Now()
	err := c.Run()
	res := CLIResult{Stdout: so.String(), Stderr: se.String(), Wall: time.Since(start)}
	if ctx.Err() == context.DeadlineExceeded {
		res.TimedOut = true
	}
	if err != nil {
		res.Exit = -1
		if ee, ok := err.(*exec.ExitError); ok {
			res.Exit = ee.ExitCode()
		}
	}
	return res
}
