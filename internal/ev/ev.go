// Package ev is the evidence sink shared by every check: it counts generated cases,
// the distinct non-trivial ones (by canonical hash), label histograms, samples, exclusions,
// known findings seen and violations, and writes one shard file that the driver merges
// into /verif/evidence/<ID>.json.
package ev

import (
	"encoding/json"
	"fmt"
	"hash/fnv"
	"os"
	"sort"
	"sync"
)

type Violation struct {
	Signature string `json:"signature"`
	Message   string `json:"message"`
	Replay    string `json:"replay"`
}

// Shard is what one test process writes to $VERIF_OUT.
type Shard struct {
	Property       string             `json:"property"`
	Evaluations    int                `json:"evaluations"`
	Hashes         []uint64           `json:"hashes"` // distinct non-trivial case hashes
	Labels         map[string]int     `json:"labels"`
	Samples        []any              `json:"samples"`
	Excluded       map[string]int     `json:"excluded"`
	KnownSeen      map[string]int     `json:"known_seen"`
	KnownText      map[string]string  `json:"known_text"`
	Violations     []Violation        `json:"violations"`
	Floors         map[string]float64 `json:"floors"`
	Rule           string             `json:"rule"`
	Assumptions    []string           `json:"assumptions"`
	Extra          map[string]any     `json:"extra"`
	Inconclusive   []string           `json:"inconclusive"`
	CorpusReplayed int                `json:"corpus_replayed"`
}

type Recorder struct {
	mu          sync.Mutex
	s           Shard
	hashes      map[uint64]struct{}
	maxSamples  int
	sampleEvery int
}

func New(property string) *Recorder {
	return &Recorder{
		s: Shard{
			Property:  property,
			Labels:    map[string]int{},
			Excluded:  map[string]int{},
			KnownSeen: map[string]int{},
			KnownText: map[string]string{},
			Floors:    map[string]float64{},
			Extra:     map[string]any{},
		},
		hashes:     map[uint64]struct{}{},
		maxSamples: 5,
	}
}

func Hash(s string) uint64 {
	h := fnv.New64a()
	h.Write([]byte(s))
	return h.Sum64()
}

// Case records one generated case. canon is a canonical rendering of the input
// (used only for distinctness); nontrivial is the property's stated rule evaluated on it.
func (r *Recorder) Case(canon string, nontrivial bool, labels ...string) {
	r.mu.Lock()
	defer r.mu.Unlock()
	r.s.Evaluations++
	if nontrivial {
		r.hashes[Hash(canon)] = struct{}{}
		r.s.Labels["nontrivial"]++
	}
	for _, l := range labels {
		r.s.Labels[l]++
	}
}

// AddEvaluations counts extra evaluations that are sub-cases of an already recorded case
// (for example HTTP requests against one generated project).
func (r *Recorder) AddEvaluations(n int) {
	r.mu.Lock()
	defer r.mu.Unlock()
	r.s.Evaluations += n
}

// NonTrivialExtra registers an additional distinct non-trivial sub-case.
func (r *Recorder) NonTrivialExtra(canon string) {
	r.mu.Lock()
	defer r.mu.Unlock()
	r.hashes[Hash(canon)] = struct{}{}
}

func (r *Recorder) Label(l string, n int) {
	r.mu.Lock()
	defer r.mu.Unlock()
	r.s.Labels[l] += n
}

func (r *Recorder) Sample(v any) {
	r.mu.Lock()
	defer r.mu.Unlock()
	if len(r.s.Samples) < r.maxSamples {
		r.s.Samples = append(r.s.Samples, v)
	}
}

func (r *Recorder) WantSample() bool {
	r.mu.Lock()
	defer r.mu.Unlock()
	return len(r.s.Samples) < r.maxSamples
}

func (r *Recorder) Exclude(what string) {
	r.mu.Lock()
	defer r.mu.Unlock()
	r.s.Excluded[what]++
}

func (r *Recorder) Known(signature, text string) {
	r.mu.Lock()
	defer r.mu.Unlock()
	r.s.KnownSeen[signature]++
	r.s.KnownText[signature] = text
}

func (r *Recorder) Violation(v Violation) {
	r.mu.Lock()
	defer r.mu.Unlock()
	for _, o := range r.s.Violations {
		if o.Replay == v.Replay {
			return
		}
	}
	r.s.Violations = append(r.s.Violations, v)
}

func (r *Recorder) Inconclusive(why string) {
	r.mu.Lock()
	defer r.mu.Unlock()
	r.s.Inconclusive = append(r.s.Inconclusive, why)
}

func (r *Recorder) Floor(label string, minFraction float64) {
	r.mu.Lock()
	defer r.mu.Unlock()
	r.s.Floors[label] = minFraction
}

func (r *Recorder) SetRule(rule string, assumptions ...string) {
	r.mu.Lock()
	defer r.mu.Unlock()
	r.s.Rule = rule
	r.s.Assumptions = assumptions
}

func (r *Recorder) SetExtra(k string, v any) {
	r.mu.Lock()
	defer r.mu.Unlock()
	r.s.Extra[k] = v
}

func (r *Recorder) AddExtraInt(k string, n int) {
	r.mu.Lock()
	defer r.mu.Unlock()
	cur, _ := r.s.Extra[k].(int)
	r.s.Extra[k] = cur + n
}

func (r *Recorder) CorpusReplayed(n int) {
	r.mu.Lock()
	defer r.mu.Unlock()
	r.s.CorpusReplayed += n
}

func (r *Recorder) Evaluations() int {
	r.mu.Lock()
	defer r.mu.Unlock()
	return r.s.Evaluations
}

// Flush writes the shard file to $VERIF_OUT (no-op when unset, e.g. under plain `go test`).
func (r *Recorder) Flush() error {
	r.mu.Lock()
	defer r.mu.Unlock()
	out := os.Getenv("VERIF_OUT")
	if out == "" {
		return nil
	}
	r.s.Hashes = r.s.Hashes[:0]
	for h := range r.hashes {
		r.s.Hashes = append(r.s.Hashes, h)
	}
	sort.Slice(r.s.Hashes, func(i, j int) bool { return r.s.Hashes[i] < r.s.Hashes[j] })
	b, err := json.Marshal(r.s)
	if err != nil {
		return fmt.Errorf("evidence marshal: %w", err)
	}
	tmp := out + ".tmp"
	if err := os.WriteFile(tmp, b, 0o644); err != nil {
		return err
	}
	return os.Rename(tmp, out)
}
