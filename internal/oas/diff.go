package oas

import (
	"fmt"
	"sort"
	"strings"
)

// Normalise extracts from a 3.0 or 3.1 document exactly what C11 enumerates (paths, verbs,
// operationIds, tags, parameters, request bodies, response codes and referenced schemas,
// security, component schemas with types/properties/required/enum sets/composition/bounds)
// and translates the dialect differences of the two versions into one canonical form.
func (d Doc) Normalise() map[string]any {
	out := map[string]any{}
	ops := map[string]any{}
	for _, op := range d.Operations() {
		o := map[string]any{
			"operationId": str(op.Raw["operationId"]),
			"tags":        op.Raw["tags"],
		}
		if dep, _ := op.Raw["deprecated"].(bool); dep {
			o["deprecated"] = true
		}
		params := []any{}
		for _, pr := range arr(op.Raw["parameters"]) {
			p := obj(pr)
			np := map[string]any{"name": str(p["name"]), "in": str(p["in"]), "schema": normSchema(obj(p["schema"]))}
			if req, _ := p["required"].(bool); req {
				np["required"] = true
			}
			params = append(params, np)
		}
		o["parameters"] = params
		if rb := obj(op.Raw["requestBody"]); rb != nil {
			nb := map[string]any{}
			if req, _ := rb["required"].(bool); req {
				nb["required"] = true
			}
			content := map[string]any{}
			for ct, media := range obj(rb["content"]) {
				content[ct] = normSchema(obj(obj(media)["schema"]))
			}
			nb["content"] = content
			o["requestBody"] = nb
		}
		resps := map[string]any{}
		for code, r := range obj(op.Raw["responses"]) {
			content := map[string]any{}
			for ct, media := range obj(obj(r)["content"]) {
				content[ct] = normSchema(obj(obj(media)["schema"]))
			}
			resps[code] = content
		}
		o["responses"] = resps
		sec := []any{}
		for _, alt := range arr(op.Raw["security"]) {
			na := map[string]any{}
			for name, scopes := range obj(alt) {
				s := []any{}
				for _, sc := range arr(scopes) {
					s = append(s, sc)
				}
				na[name] = s
			}
			sec = append(sec, na)
		}
		o["security"] = sec
		ops[op.Verb+" "+op.Path] = o
	}
	out["operations"] = ops
	comps := map[string]any{}
	for name, s := range d.Schemas() {
		comps[name] = normSchema(obj(s))
	}
	out["components"] = comps
	return out
}

var boundKeys = []string{"minLength", "maxLength", "minItems", "maxItems", "pattern", "format", "multipleOf"}

func normSchema(s map[string]any) any {
	if s == nil {
		return nil
	}
	if r, ok := s["$ref"].(string); ok {
		return map[string]any{"$ref": r}
	}
	n := map[string]any{}
	if t := typeOf(s["type"]); t != "" {
		n["type"] = t
	}
	for _, k := range boundKeys {
		if v, ok := s[k]; ok {
			switch x := v.(type) {
			case float64:
				if x != 0 || k == "maxLength" || k == "maxItems" {
					n[k] = x
				}
			case string:
				if x != "" {
					n[k] = x
				}
			default:
				n[k] = v
			}
		}
	}
	if u, _ := s["uniqueItems"].(bool); u {
		n["uniqueItems"] = true
	}
	// numeric bounds: 3.0 {minimum:n, exclusiveMinimum:true} <=> 3.1 {exclusiveMinimum:n}
	for _, side := range []string{"inimum", "aximum"} {
		incl, excl := "m"+side, "exclusiveM"+side
		switch e := s[excl].(type) {
		case bool:
			if v, ok := s[incl].(float64); ok {
				if e {
					n[excl] = v
				} else {
					n[incl] = v
				}
			}
		case float64:
			n[excl] = e
			if v, ok := s[incl].(float64); ok {
				n[incl] = v
			}
		default:
			if v, ok := s[incl].(float64); ok {
				n[incl] = v
			}
		}
	}
	if en := arr(s["enum"]); en != nil {
		vals := make([]string, 0, len(en))
		for _, m := range en {
			vals = append(vals, fmt.Sprint(m)) // compared by value after coercion ("1" == 1)
		}
		sort.Strings(vals)
		n["enum"] = vals
	}
	if props := obj(s["properties"]); props != nil {
		np := map[string]any{}
		for k, v := range props {
			np[k] = normSchema(obj(v))
		}
		n["properties"] = np
	}
	if req := arr(s["required"]); len(req) > 0 {
		r := make([]string, 0, len(req))
		for _, x := range req {
			r = append(r, fmt.Sprint(x))
		}
		sort.Strings(r)
		n["required"] = r
	}
	if it := obj(s["items"]); it != nil {
		n["items"] = normSchema(it)
	}
	if ap := obj(s["additionalProperties"]); ap != nil {
		n["additionalProperties"] = normSchema(ap)
	}
	if all := arr(s["allOf"]); all != nil {
		parts := []any{}
		for _, p := range all {
			parts = append(parts, normSchema(obj(p)))
		}
		n["allOf"] = parts
	}
	return n
}

// Difference between two normalised documents.
type Difference struct {
	Pointer string
	Class   string // the kind of thing that differs (stable; part of the finding signature)
	A, B    string
}

func (d Difference) String() string {
	return fmt.Sprintf("%s [%s]: 3.0 has %s, 3.1 has %s", d.Pointer, d.Class, d.A, d.B)
}

// Diff reports structural differences between two normalised values.
func Diff(a, b any) []Difference {
	var out []Difference
	diff("", a, b, &out)
	return out
}

func classOf(ptr string) string {
	parts := strings.Split(ptr, "/")
	// classify by the innermost well-known key
	known := map[string]bool{"operationId": true, "tags": true, "deprecated": true, "parameters": true, "requestBody": true, "responses": true, "security": true,
		"type": true, "format": true, "enum": true, "required": true, "properties": true, "items": true, "additionalProperties": true, "allOf": true, "$ref": true,
		"minimum": true, "maximum": true, "exclusiveMinimum": true, "exclusiveMaximum": true, "minLength": true, "maxLength": true, "minItems": true, "maxItems": true,
		"uniqueItems": true, "pattern": true, "components": true, "operations": true, "content": true, "schema": true, "name": true, "in": true}
	for i := len(parts) - 1; i >= 0; i-- {
		if known[parts[i]] {
			// a response code set difference is its own class
			if parts[i] == "responses" && i == len(parts)-2 {
				return "response-code-set:" + parts[len(parts)-1]
			}
			return parts[i]
		}
	}
	return "other"
}

func show(v any) string {
	if v == nil {
		return "<absent>"
	}
	s := fmt.Sprintf("%v", v)
	if len(s) > 160 {
		s = s[:160] + "…"
	}
	return s
}

func diff(ptr string, a, b any, out *[]Difference) {
	switch x := a.(type) {
	case map[string]any:
		y, ok := b.(map[string]any)
		if !ok {
			*out = append(*out, Difference{ptr, classOf(ptr), show(a), show(b)})
			return
		}
		keys := map[string]bool{}
		for k := range x {
			keys[k] = true
		}
		for k := range y {
			keys[k] = true
		}
		ks := make([]string, 0, len(keys))
		for k := range keys {
			ks = append(ks, k)
		}
		sort.Strings(ks)
		for _, k := range ks {
			xv, xok := x[k]
			yv, yok := y[k]
			switch {
			case xok && !yok:
				*out = append(*out, Difference{ptr + "/" + k, classOf(ptr + "/" + k), show(xv), "<absent>"})
			case !xok && yok:
				*out = append(*out, Difference{ptr + "/" + k, classOf(ptr + "/" + k), "<absent>", show(yv)})
			default:
				diff(ptr+"/"+k, xv, yv, out)
			}
		}
	case []any:
		y, ok := b.([]any)
		if !ok || len(x) != len(y) {
			*out = append(*out, Difference{ptr, classOf(ptr), show(a), show(b)})
			return
		}
		for i := range x {
			diff(fmt.Sprintf("%s/%d", ptr, i), x[i], y[i], out)
		}
	case []string:
		y, ok := b.([]string)
		if !ok || strings.Join(x, "\x00") != strings.Join(y, "\x00") {
			*out = append(*out, Difference{ptr, classOf(ptr), show(a), show(b)})
		}
	default:
		if fmt.Sprint(a) != fmt.Sprint(b) {
			*out = append(*out, Difference{ptr, classOf(ptr), show(a), show(b)})
		}
	}
}
