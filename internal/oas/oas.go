// Package oas is an independent reader for the OpenAPI documents gleece emits: plain
// encoding/json, no kin-openapi / libopenapi. It provides the closure/validity predicate of
// C08 and the dialect normaliser + structural differ of C11.
package oas

import (
	"encoding/json"
	"fmt"
	"regexp"
	"sort"
	"strings"
)

type Doc map[string]any

func Parse(b []byte) (Doc, error) {
	var d Doc
	if err := json.Unmarshal(b, &d); err != nil {
		return nil, err
	}
	return d, nil
}

func obj(v any) map[string]any {
	m, _ := v.(map[string]any)
	return m
}

func arr(v any) []any {
	a, _ := v.([]any)
	return a
}

func str(v any) string {
	s, _ := v.(string)
	return s
}

var Verbs = []string{"get", "put", "post", "delete", "options", "head", "patch", "trace"}

type Operation struct {
	Verb, Path string
	Raw        map[string]any
}

func (d Doc) Operations() []Operation {
	var out []Operation
	paths := obj(d["paths"])
	keys := make([]string, 0, len(paths))
	for k := range paths {
		keys = append(keys, k)
	}
	sort.Strings(keys)
	for _, p := range keys {
		item := obj(paths[p])
		for _, v := range Verbs {
			if op := obj(item[v]); op != nil {
				out = append(out, Operation{Verb: strings.ToUpper(v), Path: p, Raw: op})
			}
		}
	}
	return out
}

func (d Doc) Schemas() map[string]any { return obj(obj(d["components"])["schemas"]) }

// Problem is one violation of the closure/validity predicate.
type Problem struct {
	Class   string // stable class name (becomes part of the finding signature)
	Pointer string // JSON pointer-ish location
	Detail  string
}

func (p Problem) String() string { return p.Class + " at " + p.Pointer + ": " + p.Detail }

var templateParam = regexp.MustCompile(`\{([^{}]*)\}`)

// Validate checks the statement of C08 on a document: every $ref resolves, path template
// names <-> required path parameters (bijection), unique (name,in), response descriptions,
// enum members of the declared type.
func (d Doc) Validate() []Problem {
	var out []Problem
	add := func(class, ptr, format string, a ...any) {
		out = append(out, Problem{Class: class, Pointer: ptr, Detail: fmt.Sprintf(format, a...)})
	}
	version := str(d["openapi"])
	if !strings.HasPrefix(version, "3.0") && !strings.HasPrefix(version, "3.1") {
		add("bad-openapi-version", "/openapi", "%q", version)
	}
	if obj(d["info"]) == nil {
		add("missing-info", "/info", "absent")
	}
	schemas := d.Schemas()
	// every $ref anywhere resolves
	var walk func(ptr string, v any)
	walk = func(ptr string, v any) {
		switch t := v.(type) {
		case map[string]any:
			if r, ok := t["$ref"].(string); ok {
				const pre = "#/components/schemas/"
				if !strings.HasPrefix(r, pre) {
					add("ref-outside-components", ptr, "%q", r)
				} else if _, ok := schemas[strings.TrimPrefix(r, pre)]; !ok {
					add("dangling-ref", ptr, "%q does not resolve", r)
				}
			}
			if en, ok := t["enum"].([]any); ok {
				typ := typeOf(t["type"])
				for i, m := range en {
					if typ != "" && !jsonTypeMatches(typ, m) {
						class := "enum-member-type:inline-schema"
						if parts := strings.Split(ptr, "/"); len(parts) == 4 && parts[1] == "components" && parts[2] == "schemas" {
							class = "enum-member-type:enum-component" // the schema of a declared Go enum
						}
						add(class, fmt.Sprintf("%s/enum/%d", ptr, i), "member %v (%T) is not of declared type %q", m, m, typ)
						break
					}
				}
			}
			keys := make([]string, 0, len(t))
			for k := range t {
				keys = append(keys, k)
			}
			sort.Strings(keys)
			for _, k := range keys {
				walk(ptr+"/"+k, t[k])
			}
		case []any:
			for i, e := range t {
				walk(fmt.Sprintf("%s/%d", ptr, i), e)
			}
		}
	}
	walk("", map[string]any(d))

	for _, op := range d.Operations() {
		base := "/paths/" + op.Path + "/" + strings.ToLower(op.Verb)
		if !strings.HasPrefix(op.Path, "/") {
			add("path-without-leading-slash", base, "%q", op.Path)
		}
		inTemplate := map[string]int{}
		for _, m := range templateParam.FindAllStringSubmatch(op.Path, -1) {
			inTemplate[m[1]]++
		}
		for n, c := range inTemplate {
			if c > 1 {
				add("template-name-repeated", base, "{%s} occurs %d times", n, c)
			}
		}
		seen := map[string]bool{}
		pathParams := map[string]bool{}
		for i, pr := range arr(op.Raw["parameters"]) {
			p := obj(pr)
			key := str(p["in"]) + ":" + str(p["name"])
			if seen[key] {
				add("duplicate-parameter", fmt.Sprintf("%s/parameters/%d", base, i), "%s declared twice", key)
			}
			seen[key] = true
			if str(p["in"]) == "path" {
				pathParams[str(p["name"])] = true
				if req, _ := p["required"].(bool); !req {
					add("path-parameter-not-required", fmt.Sprintf("%s/parameters/%d", base, i), "%s", str(p["name"]))
				}
				if inTemplate[str(p["name"])] == 0 {
					add("path-parameter-not-in-template", fmt.Sprintf("%s/parameters/%d", base, i), "parameter %q has no {%s} in %q", str(p["name"]), str(p["name"]), op.Path)
				}
			}
			if p["schema"] == nil && p["content"] == nil {
				add("parameter-without-schema", fmt.Sprintf("%s/parameters/%d", base, i), "%s", key)
			}
		}
		for n := range inTemplate {
			if !pathParams[n] {
				add("template-name-without-parameter", base, "{%s} has no path parameter", n)
			}
		}
		resps := obj(op.Raw["responses"])
		if len(resps) == 0 {
			add("operation-without-responses", base, "no responses")
		}
		for code, r := range resps {
			if _, ok := obj(r)["description"].(string); !ok {
				add("response-without-description", base+"/responses/"+code, "no description member")
			}
		}
		if id := str(op.Raw["operationId"]); id == "" {
			add("operation-without-id", base, "empty operationId")
		}
	}
	// operationIds are unique
	ids := map[string]string{}
	for _, op := range d.Operations() {
		id := str(op.Raw["operationId"])
		if prev, ok := ids[id]; ok && id != "" {
			add("duplicate-operation-id", "/paths/"+op.Path, "%q also used by %s", id, prev)
		}
		ids[id] = op.Verb + " " + op.Path
	}
	return out
}

func typeOf(v any) string {
	switch t := v.(type) {
	case string:
		return t
	case []any:
		for _, e := range t {
			if s, ok := e.(string); ok && s != "null" {
				return s
			}
		}
	}
	return ""
}

func jsonTypeMatches(typ string, v any) bool {
	switch typ {
	case "string":
		_, ok := v.(string)
		return ok
	case "integer":
		f, ok := v.(float64)
		return ok && f == float64(int64(f))
	case "number":
		_, ok := v.(float64)
		return ok
	case "boolean":
		_, ok := v.(bool)
		return ok
	case "array":
		_, ok := v.([]any)
		return ok
	case "object":
		_, ok := v.(map[string]any)
		return ok
	}
	return true
}
