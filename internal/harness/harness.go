// Package harness is the generic runner every property uses: corpus replay first, then
// rapid-driven generation, known-finding filtering, failure capture (the shrunk model
// becomes the replay file) and evidence.
package harness

import (
	"encoding/json"
	"fmt"
	"os"
	"path/filepath"
	"runtime/debug"
	"sort"
	"strconv"
	"strings"
	"testing"

	"pgregory.net/rapid"

	"verif/internal/ev"
	"verif/internal/known"
)

// Viol is one oracle failure. Signature identifies the *class* (oracle clause plus the
// minimal discriminating facts); it is what known_findings.json is matched against.
type Viol struct {
	Signature string
	Message   string
}

func (v Viol) String() string { return v.Signature + ": " + v.Message }

// Class describes what a generated case looks like, for the evidence.
type Class struct {
	NonTrivial bool
	Labels     []string
}

// Prop is a property over models of type M. Gen draws the whole model up front, so that
// Check is a pure function of the model and a replay file is just the model as JSON.
type Prop[M any] struct {
	ID       string
	Gen      func(t *rapid.T) M
	Check    func(m M, rec *ev.Recorder) []Viol
	Classify func(m M) Class
	Canon    func(m M) string // canonical text for distinctness; default: JSON
	Sample   func(m M) any    // what to show in evidence; default: the model
	Rule     string
	Assume   []string
	Floors   map[string]float64
	// Sweep, when set, is a fixed list of generated models (generator examples with some
	// coordinates enumerated instead of drawn) evaluated before the random tier, split across
	// shards. It guarantees that every stratum the random tier only visits by chance is visited
	// on every run. Items are small by construction, so a failing one is saved unshrunk.
	Sweep func() []M
}

// safeCheck turns a panic inside the code under test into a violation of its own class,
// so that it is shrunk and saved like any other failure.
func safeCheck[M any](p *Prop[M], m M, rec *ev.Recorder) (out []Viol) {
	defer func() {
		if r := recover(); r != nil {
			stack := string(debug.Stack())
			out = append(out, Viol{Signature: p.ID + ":panic:" + panicSite(stack), Message: fmt.Sprintf("panic: %v\n%s", r, trim(stack, 2500))})
		}
	}()
	return p.Check(m, rec)
}

// panicSite names the first gleece frame below the panic, which is stable across inputs.
func panicSite(stack string) string {
	lines := strings.Split(stack, "\n")
	afterPanic := false
	for _, l := range lines {
		if strings.HasPrefix(l, "panic(") {
			afterPanic = true
			continue
		}
		if afterPanic && strings.Contains(l, "gopher-fleece/gleece") && !strings.HasPrefix(l, "\t") {
			if i := strings.LastIndex(l, "("); i > 0 {
				l = l[:i]
			}
			if i := strings.LastIndex(l, "/"); i >= 0 {
				l = l[i+1:]
			}
			return l
		}
	}
	return "unknown"
}

func trim(s string, n int) string {
	if len(s) > n {
		return s[:n] + "…"
	}
	return s
}

type replayFile struct {
	Property  string          `json:"property"`
	Part      string          `json:"part,omitempty"`
	Signature string          `json:"signature,omitempty"`
	Message   string          `json:"message,omitempty"`
	Model     json.RawMessage `json:"model"`
}

func canon[M any](p *Prop[M], m M) string {
	if p.Canon != nil {
		return p.Canon(m)
	}
	b, _ := json.Marshal(m)
	return string(b)
}

// Run executes the property according to the environment set by the driver:
//
//	VERIF_REPLAY=<file>   replay exactly that file, nothing else
//	VERIF_CORPUS=<dir>    replay every *.json in dir first (replay tier)
//	VERIF_NOGEN=1         skip the generated tier
//	VERIF_OUT=<file>      shard evidence
//
// Case count and seed are rapid's own flags (-rapid.checks, -rapid.seed).
func Run[M any](t *testing.T, p Prop[M]) {
	rec := ev.New(p.ID)
	rec.SetRule(p.Rule, p.Assume...)
	for k, v := range p.Floors {
		rec.Floor(k, v)
	}
	kf, err := known.Load()
	if err != nil {
		t.Fatalf("known findings: %v", err)
	}
	defer func() {
		if err := rec.Flush(); err != nil {
			t.Errorf("evidence flush: %v", err)
		}
	}()

	// evaluate runs the oracle on one model and splits the result into known / new.
	evaluate := func(m M, count bool) []Viol {
		if count {
			c := Class{}
			if p.Classify != nil {
				c = p.Classify(m)
			}
			rec.Case(canon(&p, m), c.NonTrivial, c.Labels...)
			if rec.WantSample() && (c.NonTrivial || rec.Evaluations() > 20) {
				if p.Sample != nil {
					rec.Sample(p.Sample(m))
				} else {
					rec.Sample(m)
				}
			}
		}
		var fresh []Viol
		for _, v := range safeCheck(&p, m, rec) {
			if k, ok := kf.Match(p.ID, v.Signature); ok {
				rec.Known(v.Signature, k.Text)
				continue
			}
			fresh = append(fresh, v)
		}
		return fresh
	}

	writeReplay := func(m M, v Viol) string {
		mb, _ := json.MarshalIndent(m, "", " ")
		rf := replayFile{Property: p.ID, Part: os.Getenv("VERIF_PART"), Signature: v.Signature, Message: v.Message, Model: mb}
		b, _ := json.MarshalIndent(rf, "", " ")
		dir := filepath.Join(known.Root(), "replays", p.ID)
		_ = os.MkdirAll(dir, 0o755)
		name := fmt.Sprintf("viol-%016x.json", ev.Hash(v.Signature+"\x00"+string(mb)))
		path := filepath.Join(dir, name)
		_ = os.WriteFile(path, b, 0o644)
		return path
	}

	replayOne := func(path string) (ok bool) {
		b, err := os.ReadFile(path)
		if err != nil {
			t.Errorf("replay %s: %v", path, err)
			return false
		}
		var rf replayFile
		if err := json.Unmarshal(b, &rf); err != nil {
			t.Errorf("replay %s: %v", path, err)
			return false
		}
		var m M
		if err := json.Unmarshal(rf.Model, &m); err != nil {
			t.Errorf("replay %s: model: %v", path, err)
			return false
		}
		fresh := evaluate(m, true)
		rec.CorpusReplayed(1)
		for _, v := range fresh {
			rec.Violation(ev.Violation{Signature: v.Signature, Message: v.Message, Replay: path})
			t.Errorf("replay %s: %s", path, v)
		}
		return len(fresh) == 0
	}

	if f := os.Getenv("VERIF_REPLAY"); f != "" {
		replayOne(f)
		return
	}
	if d := os.Getenv("VERIF_CORPUS"); d != "" {
		files, _ := filepath.Glob(filepath.Join(d, "*.json"))
		sort.Strings(files)
		for _, f := range files {
			replayOne(f)
		}
	}
	if os.Getenv("VERIF_NOGEN") != "" {
		return
	}

	if p.Sweep != nil {
		shard, _ := strconv.Atoi(os.Getenv("VERIF_SHARD"))
		shards, _ := strconv.Atoi(os.Getenv("VERIF_SHARDS"))
		if shards < 1 {
			shards = 1
		}
		failed := false
		for i, m := range p.Sweep() {
			if i%shards != shard%shards {
				continue
			}
			rec.Label("sweep-item", 1)
			for _, v := range evaluate(m, true) {
				path := writeReplay(m, v)
				rec.Violation(ev.Violation{Signature: v.Signature, Message: v.Message, Replay: path})
				t.Errorf("sweep item %d: %s", i, v)
				failed = true
			}
		}
		if failed {
			return
		}
	}

	// Generated tier. The last failing model seen is the shrunk one (rapid re-runs the
	// minimal case last), so it is what we persist.
	var lastM *M
	var lastV Viol
	defer func() {
		if lastM != nil {
			path := writeReplay(*lastM, lastV)
			rec.Violation(ev.Violation{Signature: lastV.Signature, Message: lastV.Message, Replay: path})
		}
	}()
	shrinking := false
	rapid.Check(t, func(rt *rapid.T) {
		m := p.Gen(rt)
		fresh := evaluate(m, !shrinking)
		if len(fresh) > 0 {
			shrinking = true
			mm := m
			lastM = &mm
			lastV = fresh[0]
			var sb strings.Builder
			for _, v := range fresh {
				sb.WriteString("\n  " + v.String())
			}
			rt.Fatalf("property %s violated:%s", p.ID, sb.String())
		}
	})
}
