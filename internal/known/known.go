// Package known loads /verif/known_findings.json (committed, never written at run time).
package known

import (
	"encoding/json"
	"os"
	"path/filepath"
)

type Finding struct {
	ID        string `json:"id"`
	Property  string `json:"property"`
	Signature string `json:"signature"`
	Status    string `json:"status"` // "known" | "fixed"
	Commit    string `json:"commit,omitempty"`
	Text      string `json:"text"`
	Witness   string `json:"witness,omitempty"`
}

type File struct {
	Findings []Finding `json:"findings"`
}

func Root() string {
	if r := os.Getenv("VERIF_ROOT"); r != "" {
		return r
	}
	return "/verif"
}

func Load() (*File, error) {
	b, err := os.ReadFile(filepath.Join(Root(), "known_findings.json"))
	if err != nil {
		if os.IsNotExist(err) {
			return &File{}, nil
		}
		return nil, err
	}
	var f File
	if err := json.Unmarshal(b, &f); err != nil {
		return nil, err
	}
	return &f, nil
}

// Match returns the listed finding with status "known" whose property and signature are
// exactly these. "fixed" entries never match: they suppress nothing.
func (f *File) Match(property, signature string) (Finding, bool) {
	for _, k := range f.Findings {
		if k.Status == "known" && k.Property == property && k.Signature == signature {
			return k, true
		}
	}
	return Finding{}, false
}
