package projgen

import (
	_ "embed"
	"encoding/json"
	"fmt"
	"strings"
)

// Router lab support: tracing controller bodies, a trace package, five authorization
// packages (one per engine signature) and the route model handed to the compiled harness.

var Engines = []string{"gin", "echo", "mux", "chi", "fiber"}

const traceSource = `package trace

import (
	"context"
	"encoding/json"
	"reflect"
	"sync"
	"time"
)

// Event is one observation: a controller call or an authorization check.
type Event struct {
	Kind       string   ` + "`json:\"kind\"`" + ` // call | auth
	Controller string   ` + "`json:\"controller,omitempty\"`" + `
	Method     string   ` + "`json:\"method,omitempty\"`" + `
	Args       []string ` + "`json:\"args,omitempty\"`" + ` // JSON encoding of each argument, in signature order
	Scheme     string   ` + "`json:\"scheme,omitempty\"`" + `
	Scopes     []string ` + "`json:\"scopes,omitempty\"`" + `
}

// Decision is what the authorization callback answers for a scheme.
type Decision struct {
	Approve bool
	Status  int
	Message string
	Custom  bool // answer with a custom JSON payload instead of the standard error
}

// Outcome tells the controller stubs how to answer the next request.
type OutcomeT struct {
	Kind   string // ok | error | status
	Status int
}

var (
	mu      sync.Mutex
	events  []Event
	Policy  = map[string]Decision{}
	Default = Decision{Approve: true}
	Outcome = OutcomeT{Kind: "ok"}
)

func Reset() {
	mu.Lock()
	defer mu.Unlock()
	events = nil
}

func Events() []Event {
	mu.Lock()
	defer mu.Unlock()
	return append([]Event(nil), events...)
}

type ctxMarker struct{ ok bool }

// Ctx records whether the context argument is usable.
func Ctx(c context.Context) any { return ctxMarker{ok: c != nil} }

func Call(controller, method string, args ...any) {
	ev := Event{Kind: "call", Controller: controller, Method: method}
	for _, a := range args {
		if m, ok := a.(ctxMarker); ok {
			if m.ok {
				ev.Args = append(ev.Args, "\"<context>\"")
			} else {
				ev.Args = append(ev.Args, "\"<nil context>\"")
			}
			continue
		}
		if rv := reflect.ValueOf(a); rv.IsValid() {
			// []uint8 would be marshalled as base64 text: record it as the list of numbers it is
			if rv.Kind() == reflect.Ptr && !rv.IsNil() {
				rv = rv.Elem()
			}
			if rv.Kind() == reflect.Slice && rv.Type().Elem().Kind() == reflect.Uint8 && rv.Type() != reflect.TypeOf(json.RawMessage{}) {
				nums := make([]int, rv.Len())
				for i := range nums {
					nums[i] = int(rv.Index(i).Uint())
				}
				a = nums
			}
		}
		b, err := json.Marshal(a)
		if err != nil {
			b = []byte("\"<unmarshalable: " + err.Error() + ">\"")
		}
		ev.Args = append(ev.Args, string(b))
	}
	mu.Lock()
	events = append(events, ev)
	mu.Unlock()
}

func Auth(scheme string, scopes []string) Decision {
	mu.Lock()
	events = append(events, Event{Kind: "auth", Scheme: scheme, Scopes: append([]string{}, scopes...)})
	mu.Unlock()
	if d, ok := Policy[scheme]; ok {
		return d
	}
	return Default
}

// Fill gives every exported field a deterministic non-zero value, so that responses are
// non-trivial and identical across engines.
func Fill(ptr any) {
	fill(reflect.ValueOf(ptr).Elem(), 0)
}

var fixedTime = time.Date(2024, 2, 29, 12, 30, 45, 0, time.UTC)

func fill(v reflect.Value, depth int) {
	if !v.CanSet() {
		return
	}
	if v.Type() == reflect.TypeOf(time.Time{}) {
		v.Set(reflect.ValueOf(fixedTime))
		return
	}
	switch v.Kind() {
	case reflect.String:
		v.SetString("sü")
	case reflect.Bool:
		v.SetBool(true)
	case reflect.Int, reflect.Int8, reflect.Int16, reflect.Int32, reflect.Int64:
		v.SetInt(7)
	case reflect.Uint, reflect.Uint8, reflect.Uint16, reflect.Uint32, reflect.Uint64:
		v.SetUint(7)
	case reflect.Float32, reflect.Float64:
		v.SetFloat(1.5)
	case reflect.Ptr:
		if depth < 3 {
			n := reflect.New(v.Type().Elem())
			fill(n.Elem(), depth+1)
			v.Set(n)
		}
	case reflect.Slice:
		if v.Type().Elem().Kind() == reflect.Uint8 {
			v.SetBytes([]byte("bytes"))
			return
		}
		if depth < 3 {
			s := reflect.MakeSlice(v.Type(), 1, 1)
			fill(s.Index(0), depth+1)
			v.Set(s)
		}
	case reflect.Map:
		if depth < 3 && v.Type().Key().Kind() == reflect.String {
			m := reflect.MakeMap(v.Type())
			e := reflect.New(v.Type().Elem()).Elem()
			fill(e, depth+1)
			m.SetMapIndex(reflect.ValueOf("k").Convert(v.Type().Key()), e)
			v.Set(m)
		}
	case reflect.Struct:
		for i := 0; i < v.NumField(); i++ {
			if v.Type().Field(i).IsExported() {
				fill(v.Field(i), depth+1)
			}
		}
	case reflect.Interface:
		if v.NumMethod() == 0 {
			v.Set(reflect.ValueOf("any"))
		}
	}
}
`

var authParam = map[string][2]string{ // engine -> (import, parameter type)
	"gin":   {"github.com/gin-gonic/gin", "*gin.Context"},
	"echo":  {"github.com/labstack/echo/v4", "echo.Context"},
	"mux":   {"net/http", "*http.Request"},
	"chi":   {"net/http", "*http.Request"},
	"fiber": {"github.com/gofiber/fiber/v2", "*fiber.Ctx"},
}

func authSource(engine string) string {
	imp, typ := authParam[engine][0], authParam[engine][1]
	return fmt.Sprintf(`package auth

import (
	"context"

	"%s/trace"
	"%s"
	"github.com/gopher-fleece/runtime"
)

type authCtxKey struct{}

func GleeceRequestAuthorization(ctx context.Context, _ %s, check runtime.SecurityCheck) (context.Context, *runtime.SecurityError) {
	d := trace.Auth(check.SchemaName, check.Scopes)
	out := context.WithValue(ctx, authCtxKey{}, check.SchemaName)
	if d.Approve {
		return out, nil
	}
	e := &runtime.SecurityError{Message: d.Message, StatusCode: runtime.HttpStatusCode(d.Status)}
	if d.Custom {
		e.CustomError = &runtime.CustomError{Payload: map[string]any{"refused": check.SchemaName, "why": d.Message}}
	}
	return out, e
}
`, Module, imp, typ)
}

// TracingBody is the controller stub of the router lab: it records the call with its arguments
// and answers as trace.Outcome dictates.
func TracingBody(p *Project, c *Controller, m *Method, imports map[string]bool) []string {
	if m.RawSig != "" || m.Decoy != "" {
		return defaultBody(p, c, m, imports)
	}
	imports[Module+"/trace"] = true
	var args []string
	for _, prm := range m.Params {
		if prm.In == "context" {
			args = append(args, "trace.Ctx("+prm.Name+")")
		} else {
			args = append(args, prm.Name)
		}
	}
	call := fmt.Sprintf("\ttrace.Call(%q, %q", c.Name, m.Name)
	if len(args) > 0 {
		call += ", " + strings.Join(args, ", ")
	}
	call += ")"
	lines := []string{call}
	noErr, someErr := "nil", ""
	switch {
	case m.ErrType == nil:
		imports["errors"] = true
		someErr = `errors.New("boom")`
	case m.ErrType.IsPtr():
		imports["errors"] = true
		someErr = "&" + m.ErrType.Elem.GoExpr(c.Pkg, imports) + `{error: errors.New("custom boom"), Code: 7}`
	default:
		imports["errors"] = true
		noErr = m.ErrType.GoExpr(c.Pkg, imports) + "{}"
		someErr = m.ErrType.GoExpr(c.Pkg, imports) + `{error: errors.New("custom boom"), Code: 7}`
	}
	if m.Ret != nil {
		t := m.Ret.GoExpr(c.Pkg, imports)
		lines = append(lines, "\tvar out "+t)
		lines = append(lines, "\tif trace.Outcome.Kind == \"error\" {", "\t\treturn out, "+someErr, "\t}")
		lines = append(lines, "\ttrace.Fill(&out)")
	} else {
		lines = append(lines, "\tif trace.Outcome.Kind == \"error\" {", "\t\treturn "+someErr, "\t}")
	}
	imports["github.com/gopher-fleece/runtime"] = true
	lines = append(lines, "\tif trace.Outcome.Kind == \"status\" {", "\t\tc.SetStatus(runtime.HttpStatusCode(trace.Outcome.Status))", "\t\tc.SetHeader(\"X-From-Controller\", \"yes\")", "\t}")
	if m.Ret != nil {
		lines = append(lines, "\treturn out, "+noErr)
	} else {
		lines = append(lines, "\treturn "+noErr)
	}
	return lines
}

// ---- the route model handed to the harness ------------------------------------------------

type WireType struct {
	Kind   string   `json:"kind"` // prim enum alias
	Base   string   `json:"base"` // Go primitive the wire value converts to
	Values []string `json:"values,omitempty"`
	Slice  bool     `json:"slice,omitempty"`
	Ptr    bool     `json:"ptr,omitempty"`
}

type HParam struct {
	Name      string   `json:"name"`
	Wire      string   `json:"wire"`
	In        string   `json:"in"`
	Type      WireType `json:"type"`
	Validator string   `json:"validator,omitempty"`
	Required  bool     `json:"required"`
}

type HField struct {
	JSON string `json:"json"`
	Kind string `json:"kind"` // string int bool float strslice
}

type HBody struct {
	Name     string   `json:"name"`
	Shape    string   `json:"shape"` // struct slice map
	Ptr      bool     `json:"ptr,omitempty"`
	Fields   []HField `json:"fields"`
	Required bool     `json:"required"`
}

type HArg struct {
	Kind  string `json:"kind"` // param body ctx
	Index int    `json:"index"`
}

type HRoute struct {
	Controller  string   `json:"controller"`
	Method      string   `json:"method"`
	Verb        string   `json:"verb"`
	Path        string   `json:"path"`
	Hidden      bool     `json:"hidden,omitempty"`
	Params      []HParam `json:"params"`
	Body        *HBody   `json:"body,omitempty"`
	Args        []HArg   `json:"args"`
	Security    [][]Sec  `json:"security"` // alternatives (each a list of checks; gleece emits one check per alternative)
	HasRet      bool     `json:"hasRet"`
	ErrKind     string   `json:"errKind"` // plain customValue customPtr
	SuccessCode int      `json:"successCode"`
}

type HModel struct {
	Routes []HRoute `json:"routes"`
	Decoys []HRoute `json:"decoys"` // would-be routes of decoy methods: must not be served
}

func (p *Project) wireType(t TypeRef) (WireType, bool) {
	w := WireType{}
	if t.Kind == "ptr" {
		w.Ptr = true
		t = *t.Elem
	}
	if t.Kind == "slice" {
		w.Slice = true
		t = *t.Elem
	}
	switch t.Kind {
	case "prim":
		w.Kind, w.Base = "prim", t.Name
		return w, true
	case "named":
		d := p.FindType(t.Pkg, t.Name)
		if d == nil {
			return w, false
		}
		switch d.Kind {
		case "enum":
			w.Kind, w.Base = "enum", d.Base
			for _, c := range d.Consts {
				w.Values = append(w.Values, strings.Trim(c.Value, `"`))
			}
			return w, true
		case "alias":
			w.Kind, w.Base = "alias", d.Base
			return w, true
		}
	}
	return w, false
}

// HarnessModel derives the route model from the project model (never from gleece's output).
func (p *Project) HarnessModel() (*HModel, error) {
	hm := &HModel{}
	for _, c := range p.Controllers {
		for _, m := range c.Methods {
			hr := HRoute{Controller: c.Name, Method: m.Name, Verb: m.Verb, Path: NormalisePath(c.Prefix(), m.Route), Hidden: m.Hidden,
				HasRet: m.Ret != nil, SuccessCode: m.SuccessCode(), ErrKind: "plain"}
			if m.ErrType != nil {
				hr.ErrKind = "customValue"
				if m.ErrType.IsPtr() {
					hr.ErrKind = "customPtr"
				}
			}
			if m.Decoy != "" {
				hm.Decoys = append(hm.Decoys, hr)
				continue
			}
			for _, s := range p.EffectiveSecurity(c, m) {
				scopes := s.Scopes
				if scopes == nil {
					scopes = []string{}
				}
				hr.Security = append(hr.Security, []Sec{{Scheme: s.Scheme, Scopes: scopes}})
			}
			for _, prm := range m.Params {
				switch prm.In {
				case "context":
					hr.Args = append(hr.Args, HArg{Kind: "ctx"})
				case "body":
					b, err := p.harnessBody(prm)
					if err != nil {
						return nil, err
					}
					hr.Body = b
					hr.Args = append(hr.Args, HArg{Kind: "body"})
				default:
					wt, ok := p.wireType(prm.Type)
					if !ok {
						return nil, fmt.Errorf("parameter %s of %s has a type the harness cannot put on the wire", prm.Name, m.Name)
					}
					hr.Params = append(hr.Params, HParam{Name: prm.Name, Wire: prm.WireName(), In: prm.In, Type: wt, Validator: prm.Validator, Required: prm.Required()})
					hr.Args = append(hr.Args, HArg{Kind: "param", Index: len(hr.Params) - 1})
				}
			}
			hm.Routes = append(hm.Routes, hr)
		}
	}
	return hm, nil
}

func (p *Project) harnessBody(prm Param) (*HBody, error) {
	b := &HBody{Name: prm.Name, Shape: "struct", Required: prm.Required()}
	t := prm.Type
	if t.Kind == "ptr" {
		b.Ptr = true
		t = *t.Elem
	}
	switch t.Kind {
	case "slice":
		b.Shape = "slice"
		t = *t.Elem
	case "map":
		b.Shape = "map"
		t = *t.Elem
	}
	if t.Kind != "named" {
		return nil, fmt.Errorf("body %s: unsupported shape", prm.Name)
	}
	d := p.FindType(t.Pkg, t.Name)
	if d == nil || d.Kind != "struct" {
		return nil, fmt.Errorf("body %s: not a struct", prm.Name)
	}
	for _, f := range d.Fields {
		kind := ""
		switch {
		case f.Type.Kind == "prim" && f.Type.Name == "string":
			kind = "string"
		case f.Type.Kind == "prim" && f.Type.Name == "bool":
			kind = "bool"
		case f.Type.Kind == "prim" && strings.HasPrefix(f.Type.Name, "float"):
			kind = "float"
		case f.Type.Kind == "prim":
			kind = "int"
		case f.Type.Kind == "slice" && f.Type.Elem.Kind == "prim" && f.Type.Elem.Name == "string":
			kind = "strslice"
		default:
			return nil, fmt.Errorf("body %s: field %s has a type the harness does not model", prm.Name, f.Name)
		}
		b.Fields = append(b.Fields, HField{JSON: f.JSONName(), Kind: kind})
	}
	return b, nil
}

// SupportFiles: the trace package and the five authorization packages (relative path -> content).
func SupportFiles() map[string]string {
	files := map[string]string{"trace/trace.go": traceSource}
	for _, e := range Engines {
		files["auth"+e+"/auth.go"] = authSource(e)
	}
	return files
}

// RouterFiles returns the extra files of a router-lab project (relative path -> content).
func (p *Project) RouterFiles(harnessSource string) (map[string]string, error) {
	files := SupportFiles()
	hm, err := p.HarnessModel()
	if err != nil {
		return nil, err
	}
	b, _ := json.MarshalIndent(hm, "", " ")
	files["harness/model.json"] = string(b)
	files["harness/harness_test.go"] = harnessSource
	return files, nil
}

//go:embed harness_template.go.txt
var HarnessSource string
