package projgen

import (
	"encoding/json"
	"fmt"
	"os"
	"path/filepath"
	"sort"
	"strings"
)

// Span is a 0-based, inclusive line range inside one rendered file.
type Span struct {
	File      string `json:"file"` // path relative to the project root
	StartLine int    `json:"startLine"`
	EndLine   int    `json:"endLine"`
}

// Layout records where the renderer wrote things (used by the diagnostics oracle).
type Layout struct {
	CtrlDoc  map[string]Span     // controller name -> doc comment block
	CtrlDecl map[string]Span     // controller name -> type declaration
	MethDoc  map[string]Span     // method name -> doc comment block
	MethDecl map[string]Span     // method name -> func declaration (signature .. closing brace)
	Files    map[string][]string // relative path -> lines
}

type fileBuilder struct {
	pkg, name string
	imports   map[string]bool
	lines     []string
	marks     []mark
}

type mark struct {
	kind, name string // ctrlDoc ctrlDecl methDoc methDecl
	start, end int
}

func (f *fileBuilder) add(lines ...string) { f.lines = append(f.lines, lines...) }

// RenderOptions control the method bodies (plain stubs for static labs, tracing stubs for the router lab).
type RenderOptions struct {
	Body func(p *Project, c *Controller, m *Method, imports map[string]bool) []string
}

func secAnnotation(s Sec) string {
	if s.Scopes == nil {
		return fmt.Sprintf("// @Security(%s)", s.Scheme)
	}
	q := make([]string, len(s.Scopes))
	for i, sc := range s.Scopes {
		q[i] = fmt.Sprintf("%q", sc)
	}
	return fmt.Sprintf("// @Security(%s, { scopes: [%s] })", s.Scheme, strings.Join(q, ", "))
}

func paramAnnotation(p Param) string {
	name := map[string]string{"path": "Path", "query": "Query", "header": "Header", "form": "FormField", "body": "Body"}[p.In]
	var props []string
	if p.Wire != "" {
		props = append(props, fmt.Sprintf("name: %q", p.Wire))
	}
	if p.Validator != "" {
		props = append(props, fmt.Sprintf("validate: %q", p.Validator))
	}
	s := "// @" + name + "(" + p.Name
	if len(props) > 0 {
		s += ", { " + strings.Join(props, ", ") + " }"
	}
	s += ")"
	if p.Desc != "" {
		s += " " + p.Desc
	}
	return s
}

// MethodDocLines renders the comment block of a method from the model.
func MethodDocLines(m *Method) []string {
	if m.RawDoc != nil {
		return m.RawDoc
	}
	if m.Decoy == "noDoc" {
		return nil
	}
	var lines []string
	for _, d := range m.Desc {
		if d == "" {
			lines = append(lines, "//")
		} else {
			lines = append(lines, "// "+d)
		}
	}
	var anns []string
	if m.Decoy != "noMethod" {
		anns = append(anns, fmt.Sprintf("// @Method(%s)", m.Verb))
	}
	if m.Decoy != "noRoute" {
		anns = append(anns, fmt.Sprintf("// @Route(%s)", m.Route))
	}
	for _, p := range m.Params {
		if p.In != "context" {
			anns = append(anns, paramAnnotation(p))
		}
	}
	for _, s := range m.Security {
		anns = append(anns, secAnnotation(s))
	}
	if m.Response != nil {
		l := fmt.Sprintf("// @Response(%d)", m.Response.Code)
		if m.Response.Desc != "" {
			l += " " + m.Response.Desc
		}
		anns = append(anns, l)
	}
	for _, e := range m.Errors {
		l := fmt.Sprintf("// @ErrorResponse(%d)", e.Code)
		if e.Desc != "" {
			l += " " + e.Desc
		}
		anns = append(anns, l)
	}
	if m.Hidden {
		anns = append(anns, "// @Hidden")
	}
	if m.Deprecated {
		anns = append(anns, "// @Deprecated")
	}
	// a drawn permutation of the annotation order (stable when absent)
	if len(m.AnnOrder) > 0 {
		idx := make([]int, len(anns))
		for i := range idx {
			idx[i] = i
		}
		sort.SliceStable(idx, func(a, b int) bool {
			return m.AnnOrder[idx[a]%len(m.AnnOrder)]*31+idx[a] < m.AnnOrder[idx[b]%len(m.AnnOrder)]*31+idx[b]
		})
		out := make([]string, len(anns))
		for i, j := range idx {
			out[i] = anns[j]
		}
		// @Security lines are alternatives in source order: keep their relative order as modelled
		var secLines []string
		for _, l := range anns {
			if strings.HasPrefix(l, "// @Security(") {
				secLines = append(secLines, l)
			}
		}
		k := 0
		for i, l := range out {
			if strings.HasPrefix(l, "// @Security(") {
				out[i] = secLines[k]
				k++
			}
		}
		anns = out
	}
	return append(lines, anns...)
}

// Signature renders "(params) (results)".
func Signature(m *Method, from string, imports map[string]bool) string {
	if m.RawSig != "" {
		return m.RawSig
	}
	var parts []string
	for i := 0; i < len(m.Params); i++ {
		p := m.Params[i]
		// "a, b string" grouping: this parameter and the following grouped ones share a type
		names := []string{p.Name}
		for i+1 < len(m.Params) && m.Params[i+1].Grouped {
			i++
			names = append(names, m.Params[i].Name)
		}
		parts = append(parts, strings.Join(names, ", ")+" "+p.Type.GoExpr(from, imports))
	}
	errT := "error"
	if m.ErrType != nil {
		errT = m.ErrType.GoExpr(from, imports)
	}
	res := errT
	if m.Ret != nil {
		res = "(" + m.Ret.GoExpr(from, imports) + ", " + errT + ")"
	}
	return "(" + strings.Join(parts, ", ") + ") " + res
}

func defaultBody(p *Project, c *Controller, m *Method, imports map[string]bool) []string {
	if m.RawSig != "" {
		return []string{"\tpanic(\"unreachable\")"}
	}
	errExpr := "nil"
	if m.ErrType != nil && !m.ErrType.IsPtr() {
		errExpr = "*new(" + m.ErrType.GoExpr(c.Pkg, imports) + ")"
	}
	if m.Ret != nil {
		return []string{"\treturn *new(" + m.Ret.GoExpr(c.Pkg, imports) + "), " + errExpr}
	}
	return []string{"\treturn " + errExpr}
}

func renderTypeDecl(f *fileBuilder, t *TypeDecl) {
	for _, imp := range t.Imports {
		f.imports[imp] = true
	}
	if t.Kind == "raw" {
		f.add(strings.Split(t.Raw, "\n")...)
		f.add("")
		return
	}
	if t.Desc != "" {
		f.add("// " + t.Desc)
	}
	switch t.Kind {
	case "struct":
		f.add("type " + t.Name + " struct {")
		if t.EmbedsError {
			f.add("\terror")
		}
		for _, fl := range t.Fields {
			if fl.Raw != "" {
				f.add("\t" + fl.Raw)
				continue
			}
			if fl.Desc != "" {
				f.add("\t// " + fl.Desc)
			}
			typ := fl.Type.GoExpr(t.Pkg, f.imports)
			var tags []string
			if fl.JSON != "" {
				tags = append(tags, fmt.Sprintf(`json:"%s"`, fl.JSON))
			}
			if fl.Validate != "" {
				tags = append(tags, fmt.Sprintf(`validate:"%s"`, fl.Validate))
			}
			tag := ""
			if len(tags) > 0 {
				tag = " `" + strings.Join(tags, " ") + "`"
			}
			if fl.Embedded {
				f.add("\t" + typ + tag)
			} else {
				f.add("\t" + fl.Name + " " + typ + tag)
			}
		}
		f.add("}", "")
	case "enum":
		f.add("type "+t.Name+" "+t.Base, "")
		var here []EnumConst
		for _, c := range t.Consts {
			if c.File == "" || c.File == t.File {
				here = append(here, c)
			}
		}
		if len(here) > 1 && t.MultiNameConsts {
			// one ValueSpec declaring several names: A, B T = 1, 2
			var names, vals []string
			for _, c := range here {
				names, vals = append(names, c.Name), append(vals, c.Value)
			}
			f.add("const "+strings.Join(names, ", ")+" "+t.Name+" = "+strings.Join(vals, ", "), "")
		} else if len(here) > 0 {
			f.add("const (")
			for _, c := range here {
				f.add(fmt.Sprintf("\t%s %s = %s", c.Name, t.Name, c.Value))
			}
			f.add(")", "")
		}
	case "alias":
		if t.Assigned {
			f.add("type "+t.Name+" = "+t.Base, "")
		} else {
			f.add("type "+t.Name+" "+t.Base, "")
		}
	}
}

// Render turns the model into files: relative path -> content, plus the layout record.
func (p *Project) Render(opts RenderOptions) (map[string]string, *Layout) {
	if opts.Body == nil {
		opts.Body = defaultBody
	}
	builders := map[string]*fileBuilder{}
	var order []string
	get := func(pkg, name string) *fileBuilder {
		key := pkg + "/" + name
		if b, ok := builders[key]; ok {
			return b
		}
		b := &fileBuilder{pkg: pkg, name: name, imports: map[string]bool{}}
		builders[key] = b
		order = append(order, key)
		return b
	}

	for _, t := range p.Types {
		renderTypeDecl(get(t.Pkg, t.File), t)
		// constants declared in another file of the package
		byFile := map[string][]EnumConst{}
		for _, c := range t.Consts {
			if c.File != "" && c.File != t.File {
				byFile[c.File] = append(byFile[c.File], c)
			}
		}
		files := make([]string, 0, len(byFile))
		for fn := range byFile {
			files = append(files, fn)
		}
		sort.Strings(files)
		for _, fn := range files {
			b := get(t.Pkg, fn)
			b.add("const (")
			for _, c := range byFile[fn] {
				b.add(fmt.Sprintf("\t%s %s = %s", c.Name, t.Name, c.Value))
			}
			b.add(")", "")
		}
	}

	for ci, c := range p.Controllers {
		f := get(c.Pkg, c.File)
		f.imports["github.com/gopher-fleece/runtime"] = true
		if ci < len(p.Noise) && p.Noise[ci] > 0 {
			for i := 0; i < p.Noise[ci]%4; i++ {
				f.add("")
			}
			f.add(fmt.Sprintf("var _noise%s%d = %d // üñí", c.Name, ci, p.Noise[ci]), "")
		}
		var doc []string
		if c.Desc != "" {
			doc = append(doc, "// "+c.Desc)
		}
		if c.Tag != nil {
			doc = append(doc, fmt.Sprintf("// @Tag(%s)", *c.Tag))
		}
		if c.HasRoute {
			doc = append(doc, fmt.Sprintf("// @Route(%s)", c.Route))
		}
		for _, s := range c.Security {
			doc = append(doc, secAnnotation(s))
		}
		if c.Deprecated {
			doc = append(doc, "// @Deprecated")
		}
		if c.RawDoc != nil {
			doc = c.RawDoc
		}
		indent := ""
		if c.Grouped {
			indent = "\t"
			if c.GroupDoc != "" {
				f.add("// " + c.GroupDoc) // the doc comment of the declaration group, not of the controller
			}
			f.add("type (")
		}
		start := len(f.lines)
		for _, l := range doc {
			f.add(indent + l)
		}
		if len(doc) > 0 {
			f.marks = append(f.marks, mark{"ctrlDoc", c.Name, start, len(f.lines) - 1})
		}
		declStart := len(f.lines)
		if c.Grouped {
			f.add(indent+c.Name+" struct {", indent+"\truntime.GleeceController", indent+"}")
		} else {
			f.add("type "+c.Name+" struct {", "\truntime.GleeceController", "}")
		}
		f.marks = append(f.marks, mark{"ctrlDecl", c.Name, declStart, len(f.lines) - 1})
		if c.Grouped {
			f.add(")")
		}
		f.add("")
	}

	for _, c := range p.Controllers {
		for _, m := range c.Methods {
			f := get(c.Pkg, m.File)
			for _, imp := range m.RawImports {
				f.imports[imp] = true
			}
			doc := MethodDocLines(m)
			start := len(f.lines)
			f.add(doc...)
			if len(doc) > 0 {
				f.marks = append(f.marks, mark{"methDoc", m.Name, start, len(f.lines) - 1})
			}
			recv := "*" + c.Name
			if m.ValueRecv {
				recv = c.Name
			}
			if m.Decoy == "otherReceiver" {
				recv = "*helper" + c.Name
			}
			declStart := len(f.lines)
			f.add("func (c " + recv + ") " + m.Name + Signature(m, c.Pkg, f.imports) + " {")
			f.add(opts.Body(p, c, m, f.imports)...)
			f.add("}")
			f.marks = append(f.marks, mark{"methDecl", m.Name, declStart, len(f.lines) - 1})
			f.add("")
		}
		// the non-controller struct that decoy receivers hang on
		for _, m := range c.Methods {
			if m.Decoy == "otherReceiver" {
				f := get(c.Pkg, c.File)
				f.add("type helper"+c.Name+" struct{}", "")
				break
			}
		}
	}

	for _, e := range p.Extra {
		f := get(e.Pkg, e.Name)
		f.add(strings.Split(e.Body, "\n")...)
	}

	files := map[string]string{}
	lay := &Layout{CtrlDoc: map[string]Span{}, CtrlDecl: map[string]Span{}, MethDoc: map[string]Span{}, MethDecl: map[string]Span{}, Files: map[string][]string{}}
	for _, key := range order {
		b := builders[key]
		header := []string{"package " + pkgAlias(b.pkg), ""}
		if len(b.imports) > 0 {
			imps := make([]string, 0, len(b.imports))
			for i := range b.imports {
				imps = append(imps, i)
			}
			sort.Strings(imps)
			header = append(header, "import (")
			for _, i := range imps {
				header = append(header, "\t\""+i+"\"")
			}
			header = append(header, ")", "")
		}
		all := append(header, b.lines...)
		rel := filepath.Join(b.pkg, b.name)
		files[rel] = strings.Join(all, "\n") + "\n"
		lay.Files[rel] = all
		off := len(header)
		for _, mk := range b.marks {
			sp := Span{File: rel, StartLine: mk.start + off, EndLine: mk.end + off}
			switch mk.kind {
			case "ctrlDoc":
				lay.CtrlDoc[mk.name] = sp
			case "ctrlDecl":
				lay.CtrlDecl[mk.name] = sp
			case "methDoc":
				lay.MethDoc[mk.name] = sp
			case "methDecl":
				lay.MethDecl[mk.name] = sp
			}
		}
	}
	return files, lay
}

// ConfigJSON renders the gleece configuration document.
func (c Config) ConfigJSON() map[string]any {
	schemes := []any{}
	for _, s := range c.Schemes {
		m := map[string]any{"name": s.Name, "type": s.Type, "description": s.Description}
		if s.In != "" {
			m["in"] = s.In
		}
		if s.FieldName != "" {
			m["fieldName"] = s.FieldName
		}
		if s.HTTPScheme != "" {
			m["scheme"] = s.HTTPScheme
		}
		if s.OpenIDURL != "" {
			m["openIdConnectUrl"] = s.OpenIDURL
		}
		if s.Flows != nil {
			m["flows"] = s.Flows
		}
		schemes = append(schemes, m)
	}
	info := map[string]any{"title": c.Title, "version": c.Version}
	if c.Description != "" {
		info["description"] = c.Description
	}
	if c.Contact {
		info["contact"] = map[string]any{"name": "API Support", "url": "https://example.com/support", "email": "support@example.com"}
	}
	if c.License {
		info["license"] = map[string]any{"name": "Apache 2.0", "url": "https://www.apache.org/licenses/LICENSE-2.0.html"}
	}
	openapi := map[string]any{
		"openapi": c.OpenAPI, "info": info, "baseUrl": c.BaseURL, "securitySchemes": schemes,
		"specGeneratorConfig": map[string]any{"outputPath": c.SpecOut},
	}
	if c.DefaultSec != nil {
		scopes := c.DefaultSec.Scopes
		if scopes == nil {
			scopes = []string{}
		}
		openapi["defaultSecurity"] = map[string]any{"name": c.DefaultSec.Scheme, "scopes": scopes}
	}
	routes := map[string]any{
		"engine": c.Engine, "outputPath": c.RoutesOut,
		"authorizationConfig":     map[string]any{"authFileFullPackageName": c.AuthPkg, "enforceSecurityOnAllRoutes": c.Enforce},
		"skipGenerateDateComment": c.SkipDate, "validateResponsePayload": c.ValidateResp,
	}
	if c.Perms != "" {
		routes["outputFilePerms"] = c.Perms
	}
	if c.PackageName != "" {
		routes["packageName"] = c.PackageName
	}
	doc := map[string]any{
		"commonConfig":           map[string]any{"controllerGlobs": c.Globs},
		"routesConfig":           routes,
		"openapiGeneratorConfig": openapi,
	}
	if c.TopLevelEnum || c.EnumValidator {
		doc["experimentalConfig"] = map[string]any{"validateTopLevelOnlyEnum": c.TopLevelEnum, "generateEnumValidator": c.EnumValidator}
	}
	return doc
}

// GoMod is the go.mod of every generated project: the same requirements as gleece itself
// (everything is in the module cache), so packages.Load and go build work offline.
func GoMod(repoGoMod string) string {
	var sb strings.Builder
	sb.WriteString("module " + Module + "\n\n")
	lines := strings.Split(repoGoMod, "\n")
	started := false
	for _, l := range lines {
		if strings.HasPrefix(l, "module ") {
			continue
		}
		if strings.HasPrefix(l, "go ") {
			started = true
		}
		if started {
			sb.WriteString(l + "\n")
		}
	}
	return sb.String()
}

// WriteTo materialises the project under dir (which must exist and be empty).
func (p *Project) WriteTo(dir string, opts RenderOptions, repoRoot string) (*Layout, error) {
	files, lay := p.Render(opts)
	for rel, content := range files {
		full := filepath.Join(dir, rel)
		if err := os.MkdirAll(filepath.Dir(full), 0o755); err != nil {
			return nil, err
		}
		if err := os.WriteFile(full, []byte(content), 0o644); err != nil {
			return nil, err
		}
	}
	gm, err := os.ReadFile(filepath.Join(repoRoot, "go.mod"))
	if err != nil {
		return nil, err
	}
	if err := os.WriteFile(filepath.Join(dir, "go.mod"), []byte(GoMod(string(gm))), 0o644); err != nil {
		return nil, err
	}
	gs, err := os.ReadFile(filepath.Join(repoRoot, "go.sum"))
	if err != nil {
		return nil, err
	}
	if err := os.WriteFile(filepath.Join(dir, "go.sum"), gs, 0o644); err != nil {
		return nil, err
	}
	cfg, _ := json.MarshalIndent(p.Config.ConfigJSON(), "", "\t")
	if err := os.WriteFile(filepath.Join(dir, "gleece.config.json"), cfg, 0o644); err != nil {
		return nil, err
	}
	return lay, nil
}
