package projgen

import (
	"encoding/json"
	"fmt"
	"strings"

	"pgregory.net/rapid"
)

// Profile selects which features a generated project may use. Every property uses the same
// model with a profile biased towards the shapes it cares about.
type Profile struct {
	MaxControllers        int
	MaxMethods            int
	MinMethods            int
	CtrlPackages          []string // package dirs controllers may live in
	Decoys                bool     // non-endpoint methods that look almost like endpoints
	Hidden                bool
	Security              bool
	Enforce               bool // may switch enforceSecurityOnAllRoutes on
	ExtraParams           int  // max query/header/body params beyond the route's path params
	Types                 bool // declared types (structs/enums/aliases) in params, bodies, results
	TypePackages          []string
	Validators            bool // validator strings on params and fields
	Responses             bool // @Response / @ErrorResponse / custom error types
	SlashNoise            bool // doubled / missing / trailing slashes in templates
	TrailingSlash         bool
	PrefixParams          bool // controller prefixes may carry {params} that every method binds with @Path
	DupWire               bool // two parameters of one location may share a wire name
	PtrPathParams         bool // path parameters may be declared as pointers
	NoNamedInMaps         bool // no map[string]<declared type> as body or result (finding F-C09-2: such routes yield uncompilable code)
	CollidingNames        bool // parameter names that collide with template locals / each other after camel-casing
	Experimental          bool // draw experimental flags, response validation and a package name
	FlatStructs           bool // struct fields limited to string/int/bool/float/[]string without tags (bodies the router harness can synthesise)
	RichValidators        bool // draw validators from the whole vocabulary both spec converters understand
	VarySchemes           bool // draw the security scheme catalogue of the configuration
	UndeclaredScheme      bool // sometimes let routes name a scheme the configuration does not declare
	FixedEngine           string
	FixedOpenAPI          string
	NoLayoutNoise         bool
	SharedPrefix          bool // two controllers may share a route prefix
	PtrParams             bool
	FormParams            bool
	ContextParams         bool
	GroupedParams         bool
	SliceQuery            bool
	MinControllers        int
	AllowOverlap          bool // keep some same-verb routes that overlap without being the same template (route-conflict warnings)
	MirrorController      bool // sometimes add a controller that mirrors the first one with counterpart types from another package
	GroupFollowerSameType bool // the parameter after a grouped declaration always has the group's type (router lab: the misbinding variant compiles)
	StrayController       bool // sometimes declare an annotated controller inside a type package (outside the globs)
}

var CoreProfile = Profile{
	MaxControllers: 3, MaxMethods: 5, CtrlPackages: []string{"api", "api2", "internal/api3"},
	Decoys: true, Hidden: true, Security: true, ExtraParams: 2, SlashNoise: true, SharedPrefix: true,
}

var schemeCatalogue = []Scheme{
	{Name: "keyHeader", Type: "apiKey", In: "header", FieldName: "X-Api-Key", Description: "api key in a header"},
	{Name: "keyQuery", Type: "apiKey", In: "query", FieldName: "api_key", Description: "api key in the query"},
	{Name: "keyCookie", Type: "apiKey", In: "cookie", FieldName: "session", Description: "api key in a cookie"},
	{Name: "basic", Type: "http", HTTPScheme: "basic", Description: "basic auth"},
	{Name: "bearer", Type: "http", HTTPScheme: "bearer", Description: "bearer token"},
	{Name: "oauthImplicit", Type: "oauth2", Description: "oauth2 implicit", Flows: map[string]any{"implicit": map[string]any{
		"authorizationUrl": "https://example.com/auth", "scopes": map[string]any{"read": "r", "write": "w", "admin": "a", "items:read": "ir"}}}},
	{Name: "oauthCode", Type: "oauth2", Description: "oauth2 code", Flows: map[string]any{"authorizationCode": map[string]any{
		"authorizationUrl": "https://example.com/auth", "tokenUrl": "https://example.com/token", "refreshUrl": "https://example.com/refresh",
		"scopes": map[string]any{"read": "r", "write": "w", "admin": "a", "items:read": "ir"}}}},
	{Name: "oauthClient", Type: "oauth2", Description: "oauth2 client credentials", Flows: map[string]any{"clientCredentials": map[string]any{
		"tokenUrl": "https://example.com/token", "scopes": map[string]any{"read": "r", "write": "w", "admin": "a", "items:read": "ir"}}}},
	{Name: "oidc", Type: "openIdConnect", OpenIDURL: "https://example.com/.well-known/openid-configuration", Description: "open id connect"},
}

var primTypes = []string{"string", "bool", "int", "int8", "int16", "int32", "int64", "uint", "uint8", "uint16", "uint32", "uint64", "float32", "float64"}

// strings carry most of the validator vocabulary, so parameters are strings more often than any one numeric type
var extraParamTypes = append(append([]string{}, primTypes...), "string", "string", "string", "string")
var verbs = []string{"GET", "POST", "PUT", "DELETE", "PATCH"}
var schemeNames = []string{"apiKeyAuth", "bearerAuth", "oauthAuth"}
var scopePool = []string{"read", "write", "admin", "items:read", "orders:read&write", "a<b>", "it's"}
var literalSegs = []string{"users", "items", "a", "b-c", "v1", "x_y", "orders", "9"}
var paramNames = []string{"id", "name", "userId", "item_id", "k"}
var descWords = []string{"Returns", "the", "thing", "for", "given", "user", "(beta)", "ünïcode", "v2.", "items,", "and", "more"}

func segsOf(path string) []string {
	var out []string
	for _, s := range strings.Split(path, "/") {
		if s != "" {
			out = append(out, s)
		}
	}
	return out
}

func isParamSeg(s string) bool { return strings.HasPrefix(s, "{") && strings.HasSuffix(s, "}") }

// Overlap is the brute-force route overlap predicate (same segment count, position by
// position equal literals or at least one parameter), on normalised paths.
func Overlap(a, b string) bool {
	sa, sb := segsOf(a), segsOf(b)
	if len(sa) != len(sb) {
		return false
	}
	for i := range sa {
		if sa[i] != sb[i] && !isParamSeg(sa[i]) && !isParamSeg(sb[i]) {
			return false
		}
	}
	return true
}

// sameTemplateOtherNames: OpenAPI treats templated paths that differ only in parameter names as
// the same path (and kin-openapi rejects such a document), so a project must not contain them.
func sameTemplateOtherNames(a, b string) bool {
	sa, sb := segsOf(a), segsOf(b)
	if len(sa) != len(sb) {
		return false
	}
	differ := false
	for i := range sa {
		pa, pb := isParamSeg(sa[i]), isParamSeg(sb[i])
		if pa != pb || (!pa && sa[i] != sb[i]) {
			return false
		}
		if pa && sa[i] != sb[i] {
			differ = true
		}
	}
	return differ
}

func genSec(t *rapid.T, label string, schemeNames []string) []Sec {
	n := rapid.SampledFrom([]int{0, 0, 1, 1, 2, 3}).Draw(t, label+"N")
	var out []Sec
	for i := 0; i < n; i++ {
		s := Sec{Scheme: rapid.SampledFrom(schemeNames).Draw(t, label+"Scheme")}
		switch rapid.IntRange(0, 3).Draw(t, label+"ScopeKind") {
		case 0: // no properties at all
		case 1:
			s.Scopes = []string{}
		default:
			s.Scopes = rapid.SliceOfNDistinct(rapid.SampledFrom(scopePool), 1, 3, func(s string) string { return s }).Draw(t, label+"Scopes")
		}
		out = append(out, s)
	}
	return out
}

func genDesc(t *rapid.T, label string) string {
	if rapid.IntRange(0, 2).Draw(t, label+"Has") == 0 {
		return ""
	}
	ws := rapid.SliceOfN(rapid.SampledFrom(descWords), 1, 5).Draw(t, label)
	return strings.Join(ws, " ")
}

// GenProject draws a well-formed project under the given profile.
func GenProject(t *rapid.T, pf Profile) *Project {
	p := &Project{}
	// ---- configuration
	cfg := Config{
		Engine:    rapid.SampledFrom([]string{"gin", "echo", "mux", "chi", "fiber"}).Draw(t, "engine"),
		OpenAPI:   rapid.SampledFrom([]string{"3.0.0", "3.1.0"}).Draw(t, "openapi"),
		RoutesOut: "./dist/routes/gleece.go", SpecOut: "./dist/openapi.json", AuthPkg: Module + "/auth",
		Title: "Generated API", Version: "1.2.3", BaseURL: "https://api.example.com/base", SkipDate: true,
		Schemes: []Scheme{
			{Name: "apiKeyAuth", Type: "apiKey", In: "header", FieldName: "X-Api-Key", Description: "key"},
			{Name: "bearerAuth", Type: "http", HTTPScheme: "bearer", Description: "bearer token"},
			{Name: "oauthAuth", Type: "oauth2", Description: "oauth", Flows: map[string]any{"implicit": map[string]any{
				"authorizationUrl": "https://example.com/auth", "scopes": map[string]any{"read": "r", "write": "w", "admin": "a", "items:read": "ir"}}}},
		},
	}
	if pf.FixedEngine != "" {
		cfg.Engine = pf.FixedEngine
	}
	if pf.FixedOpenAPI != "" {
		cfg.OpenAPI = pf.FixedOpenAPI
	}
	secNames := schemeNames
	if pf.VarySchemes {
		cfg.Schemes = nil
		secNames = nil
		n := rapid.IntRange(1, 4).Draw(t, "nSchemes")
		for i := 0; i < n; i++ {
			sc := rapid.SampledFrom(schemeCatalogue).Draw(t, "schemeKind")
			if sc.Type == "oauth2" && rapid.Bool().Draw(t, "mixFlows") {
				// any non-empty subset of the four flows, each with the URLs the specification requires of it
				scopes := map[string]any{"read": "r", "write": "w", "admin": "a", "items:read": "ir"}
				all := map[string]map[string]any{
					"implicit":          {"authorizationUrl": "https://example.com/auth", "scopes": scopes},
					"password":          {"tokenUrl": "https://example.com/token", "scopes": scopes},
					"clientCredentials": {"tokenUrl": "https://example.com/token", "scopes": scopes},
					"authorizationCode": {"authorizationUrl": "https://example.com/auth", "tokenUrl": "https://example.com/token", "scopes": scopes},
				}
				pick := rapid.SliceOfNDistinct(rapid.SampledFrom([]string{"implicit", "password", "clientCredentials", "authorizationCode"}), 1, 4, func(s string) string { return s }).Draw(t, "flows")
				sc.Flows = map[string]any{}
				for _, f := range pick {
					sc.Flows[f] = all[f]
				}
				sc.Name, sc.Description = "oauthMixed", "oauth2 with "+strings.Join(pick, "+")
			}
			sc.Name = fmt.Sprintf("%s%d", sc.Name, i)
			cfg.Schemes = append(cfg.Schemes, sc)
			secNames = append(secNames, sc.Name)
		}
		if pf.UndeclaredScheme && rapid.IntRange(0, 7).Draw(t, "undeclared") == 0 {
			secNames = append(append([]string{}, secNames...), "ghostAuth")
		}
	}
	if pf.Security && rapid.IntRange(0, 2).Draw(t, "hasDefaultSec") == 0 {
		s := Sec{Scheme: rapid.SampledFrom(secNames).Draw(t, "defScheme"), Scopes: rapid.SliceOfNDistinct(rapid.SampledFrom(scopePool), 0, 2, func(s string) string { return s }).Draw(t, "defScopes")}
		cfg.DefaultSec = &s
	}
	p.Config = cfg

	var types *typeCtx
	if pf.Types {
		types = genTypes(t, p, pf)
	}

	// ---- controllers
	minCtrl := 1
	if pf.MinControllers > minCtrl && pf.MinControllers <= pf.MaxControllers {
		minCtrl = pf.MinControllers
	}
	nc := rapid.IntRange(minCtrl, pf.MaxControllers).Draw(t, "nControllers")
	type opKey struct{ verb, path string }
	var taken []opKey
	opIdx := 0
	prefixes := []string{}
	pkgUsed := map[string]bool{}
	for ci := 0; ci < nc; ci++ {
		c := &Controller{Name: fmt.Sprintf("%sController", []string{"Users", "Items", "Admin", "Misc"}[ci%4]) + strings.Repeat("X", ci/4)}
		c.Pkg = rapid.SampledFrom(pf.CtrlPackages).Draw(t, "ctrlPkg")
		pkgUsed[c.Pkg] = true
		c.File = fmt.Sprintf("%s.go", strings.ToLower(c.Name))
		if ci > 0 && !pf.NoLayoutNoise && rapid.IntRange(0, 3).Draw(t, "shareFile") == 0 {
			// two controllers declared in one source file
			prev := p.Controllers[ci-1]
			c.Pkg, c.File = prev.Pkg, prev.File
		}
		if rapid.IntRange(0, 5).Draw(t, "hasTag") > 0 {
			tag := rapid.SampledFrom([]string{"Users", "Items API", "admin-ops", "Misc_1", "T"}).Draw(t, "tag") + fmt.Sprint(ci)
			c.Tag = &tag
		}
		// prefix
		switch {
		case pf.SharedPrefix && ci > 0 && rapid.IntRange(0, 3).Draw(t, "sharePrefix") == 0:
			c.HasRoute, c.Route = true, prefixes[rapid.IntRange(0, len(prefixes)-1).Draw(t, "whichPrefix")]
		case rapid.IntRange(0, 7).Draw(t, "noPrefix") == 0:
			c.HasRoute = false
		default:
			c.HasRoute = true
			c.Route = "/" + rapid.SampledFrom(literalSegs).Draw(t, "prefixSeg") + fmt.Sprint(ci)
			if rapid.IntRange(0, 3).Draw(t, "prefix2") == 0 {
				c.Route += "/" + rapid.SampledFrom(literalSegs).Draw(t, "prefixSeg2")
			}
			if pf.SlashNoise && rapid.IntRange(0, 5).Draw(t, "prefixTrail") == 0 {
				c.Route += "/"
			}
		}
		prefixParam := ""
		if pf.PrefixParams && c.HasRoute && rapid.IntRange(0, 2).Draw(t, "prefixParam") == 0 {
			prefixParam = "tenant"
			c.Route = strings.TrimSuffix(c.Route, "/") + "/{tenant}"
		}
		prefixes = append(prefixes, c.Route)
		if pf.Security {
			c.Security = genSec(t, "ctrlSec", secNames)
		}
		c.Desc = genDesc(t, "ctrlDesc")
		bare := false
		if ci > 0 && rapid.IntRange(0, 5).Draw(t, "bareController") == 0 {
			// a controller without any doc comment at all: no tag, no prefix, no security, no description (gleece warns
			// about the missing tag); whatever is documented around it belongs to other declarations
			c.Tag, c.HasRoute, c.Route, c.Security, c.Desc = nil, false, "", nil, ""
			prefixes = prefixes[:len(prefixes)-1]
			prefixParam = ""
			bare = true
		}
		c.Grouped = !pf.NoLayoutNoise && rapid.IntRange(0, 2).Draw(t, "grouped") == 0
		if c.Grouped && rapid.IntRange(0, 2).Draw(t, "groupDoc") > 0 {
			c.GroupDoc = "Types of this file, kept in one declaration group."
		}
		if bare {
			c.Grouped, c.GroupDoc = false, "" // a group's doc comment would stand in for the missing one
		}
		if !pf.NoLayoutNoise {
			p.Noise = append(p.Noise, rapid.IntRange(0, 7).Draw(t, "noise"))
		}

		// the files methods may live in: the controller's file, a sibling file, a file without any controller
		files := []string{c.File, c.File, strings.TrimSuffix(c.File, ".go") + "_more.go", "handlers_" + fmt.Sprint(ci) + ".go"}
		nm := rapid.IntRange(pf.MinMethods, pf.MaxMethods).Draw(t, "nMethods")
		var lastSegs []string
		lastVerbs := map[string]bool{}
		for mi := 0; mi < nm; mi++ {
			m := &Method{Name: fmt.Sprintf("%s%d", rapid.SampledFrom([]string{"Get", "List", "Create", "Update", "Remove", "Do"}).Draw(t, "mname"), opIdx)}
			opIdx++
			m.File = rapid.SampledFrom(files).Draw(t, "mfile")
			m.Verb = rapid.SampledFrom(verbs).Draw(t, "verb")
			m.ValueRecv = rapid.IntRange(0, 5).Draw(t, "valueRecv") == 0
			if pf.Decoys && rapid.IntRange(0, 6).Draw(t, "decoy") == 0 {
				m.Decoy = rapid.SampledFrom([]string{"noMethod", "noRoute", "noDoc", "otherReceiver"}).Draw(t, "decoyKind")
			}
			// route template
			nseg := rapid.IntRange(1, 3).Draw(t, "nseg")
			var segs []string
			usedParams := map[string]bool{}
			base := len(segsOf(c.Prefix()))
			for s := 0; s < nseg; s++ {
				if rapid.IntRange(0, 2).Draw(t, "segIsParam") == 0 {
					// the parameter name is a function of the segment's absolute position: routers such as gin
					// refuse two wildcards with different names at the same position of their tree
					pn := paramNames[(base+s)%len(paramNames)]
					if !usedParams[pn] {
						usedParams[pn] = true
						segs = append(segs, "{"+pn+"}")
						continue
					}
				}
				segs = append(segs, rapid.SampledFrom(literalSegs).Draw(t, "seg"))
			}
			// the REST habit: several verbs on one path (GET/PUT/DELETE /items/{id}), each method free to
			// write the template with its own slash noise
			if mi > 0 && len(lastSegs) > 0 && rapid.IntRange(0, 2).Draw(t, "siblingVerb") == 0 {
				var free []string
				for _, v := range verbs {
					if !lastVerbs[v] {
						free = append(free, v)
					}
				}
				if len(free) > 0 {
					segs = append([]string(nil), lastSegs...)
					m.Verb = rapid.SampledFrom(free).Draw(t, "siblingVerbPick")
				}
			}
			if strings.Join(segs, "/") != strings.Join(lastSegs, "/") {
				lastVerbs = map[string]bool{}
			}
			lastSegs = append([]string(nil), segs...)
			lastVerbs[m.Verb] = true
			route := "/" + strings.Join(segs, "/")
			full := NormalisePath(c.Prefix(), route)
			clash, onlyBenign := false, true
			for _, k := range taken {
				if (k.verb == m.Verb && Overlap(k.path, full)) || sameTemplateOtherNames(k.path, full) {
					clash = true
					if sameTemplateOtherNames(k.path, full) || paramBlind(k.path) == paramBlind(full) {
						onlyBenign = false
					}
				}
			}
			if clash && onlyBenign && pf.AllowOverlap && rapid.IntRange(0, 1).Draw(t, "keepOverlap") == 0 {
				// GET /items/{id} next to GET /items/latest: legal, gleece only warns about it
				clash = false
			}
			for depth := 1; clash && depth <= 6; depth++ {
				// fall back to a literal route; deepen it until it overlaps nothing (a literal can still
				// overlap an all-parameter template of the same length)
				segs = nil
				for d := 0; d < depth; d++ {
					segs = append(segs, fmt.Sprintf("u%d", opIdx))
				}
				route = "/" + strings.Join(segs, "/")
				full = NormalisePath(c.Prefix(), route)
				clash = false
				for _, k := range taken {
					if (k.verb == m.Verb && Overlap(k.path, full)) || sameTemplateOtherNames(k.path, full) {
						clash = true
					}
				}
			}
			if pf.SlashNoise {
				switch rapid.IntRange(0, 9).Draw(t, "slashNoise") {
				case 0:
					if c.HasRoute && strings.HasSuffix(c.Route, "/") || !c.HasRoute {
						// no leading slash only when the concatenation still separates the segments
					} else {
						route = "//" + strings.Join(segs, "/")
					}
				case 1:
					route = "/" + strings.Join(segs, "//")
				case 2:
					if pf.TrailingSlash {
						route += "/"
					}
				case 4:
					// the controller's own path with a trailing slash: @Route(/) under a prefix
					if pf.TrailingSlash && c.HasRoute && len(segsOf(c.Prefix())) > 0 {
						bare := NormalisePath(c.Prefix(), "/")
						free := true
						for _, k := range taken {
							if (k.verb == m.Verb && Overlap(k.path, bare)) || sameTemplateOtherNames(k.path, bare) {
								free = false
							}
						}
						if free {
							route, full, segs = "/", bare, nil
						}
					}
				case 3:
					if c.HasRoute && strings.HasSuffix(c.Route, "/") {
						route = strings.Join(segs, "/") // prefix ends with '/', route starts without
					}
				}
			}
			m.Route = route
			if m.Decoy == "" {
				taken = append(taken, opKey{m.Verb, full})
			}
			// parameters bound to the template
			for _, s := range segs {
				if isParamSeg(s) {
					pn := strings.Trim(s, "{}")
					prm := Param{In: "path", Type: Prim(rapid.SampledFrom([]string{"string", "int", "int64", "uint32", "bool", "float64"}).Draw(t, "pathType"))}
					if rapid.IntRange(0, 2).Draw(t, "pathAlias") == 0 {
						prm.Name, prm.Wire = "p"+strings.ReplaceAll(pn, "_", "")+"Arg", pn
					} else {
						prm.Name = pn
					}
					if n := len(m.Params); pf.GroupedParams && n > 0 && m.Params[n-1].In == "path" && rapid.IntRange(0, 3).Draw(t, "groupPath") == 0 {
						// "id, name string": consecutive path parameters declared together
						prm.Type, prm.Grouped = m.Params[n-1].Type, true
					}
					m.Params = append(m.Params, prm)
				}
			}
			if prefixParam != "" {
				m.Params = append(m.Params, Param{Name: prefixParam, In: "path", Type: Prim("string")})
			}
			if pf.PtrPathParams {
				for i := range m.Params {
					if m.Params[i].In == "path" && rapid.IntRange(0, 3).Draw(t, "ptrPath") == 0 {
						m.Params[i].Type = Ptr(m.Params[i].Type)
					}
				}
			}
			genExtraParams(t, pf, m, types)
			if pf.DupWire && rapid.IntRange(0, 5).Draw(t, "dupWire") == 0 {
				var q []int
				for i, prm := range m.Params {
					if prm.In == "query" {
						q = append(q, i)
					}
				}
				if len(q) >= 2 {
					m.Params[q[1]].Wire = m.Params[q[0]].WireName()
				}
			}
			if pf.Hidden {
				m.Hidden = rapid.IntRange(0, 3).Draw(t, "hidden") == 0
			}
			m.Deprecated = rapid.IntRange(0, 4).Draw(t, "deprecated") == 0
			if pf.Security {
				m.Security = genSec(t, "methSec", secNames)
			}
			genResults(t, pf, p, c, m, types)
			if rapid.IntRange(0, 2).Draw(t, "hasDescLines") == 0 {
				m.Desc = []string{genDesc(t, "mdesc") + "."}
			}
			m.AnnOrder = rapid.SliceOfN(rapid.IntRange(0, 9), 0, 6).Draw(t, "annOrder")
			c.Methods = append(c.Methods, m)
		}
		if pf.AllowOverlap && rapid.IntRange(0, 2).Draw(t, "overlapSibling") == 0 {
			// GET /items/{id} gets a sibling GET /items/latest: the same signature minus the parameter that was bound to the
			// replaced segment. Legal; gleece reports a route-conflict warning on both.
			for _, src := range c.RealMethods() {
				segs := segsOf(src.Route)
				last := -1
				for i, sg := range segs {
					if isParamSeg(sg) {
						last = i
					}
				}
				if last < 0 || src.RawSig != "" {
					continue
				}
				bound := strings.Trim(segs[last], "{}")
				segs[last] = "latest"
				sib := *src
				sib.Name = fmt.Sprintf("%sLatest%d", src.Name, opIdx)
				opIdx++
				sib.Route = "/" + strings.Join(segs, "/")
				sib.Params = nil
				for _, prm := range src.Params {
					if prm.In == "path" && prm.WireName() == bound {
						continue
					}
					sib.Params = append(sib.Params, prm)
				}
				full := NormalisePath(c.Prefix(), sib.Route)
				dup := false
				for _, k := range taken {
					if k.verb == sib.Verb && paramBlind(k.path) == paramBlind(full) {
						dup = true
					}
				}
				if !dup {
					taken = append(taken, opKey{sib.Verb, full})
					c.Methods = append(c.Methods, &sib)
				}
				break
			}
		}
		p.Controllers = append(p.Controllers, c)
	}
	if pf.MirrorController && len(p.Controllers) > 0 && rapid.IntRange(0, 2).Draw(t, "mirror") > 0 {
		// mirror the controller whose signatures use the most declared types
		src, best := p.Controllers[0], -1
		for _, c := range p.Controllers {
			n := 0
			for _, m := range c.RealMethods() {
				for _, prm := range m.Params {
					if prm.Type.Base().Kind == "named" {
						n++
					}
				}
			}
			if n > best {
				src, best = c, n
			}
		}
		mc := mirrorController(p, src, pf)
		if mc != nil {
			// the mirrored routes obey the same rule as all others: no same-verb overlap with a route that exists already
			// (a prefix-less controller may own /{name}/orders, which also matches /mirror2/orders)
			var kept []*Method
			for _, m := range mc.Methods {
				full := NormalisePath(mc.Prefix(), m.Route)
				clash := false
				for _, k := range taken {
					if (k.verb == m.Verb && Overlap(k.path, full)) || sameTemplateOtherNames(k.path, full) {
						clash = true
					}
				}
				if !clash {
					taken = append(taken, opKey{m.Verb, full})
					kept = append(kept, m)
				}
			}
			mc.Methods = kept
			if len(kept) == 0 {
				mc = nil
			}
		}
		if mc != nil {
			p.Controllers = append(p.Controllers, mc)
			pkgUsed[mc.Pkg] = true
		}
	}
	// globs: the controller package directories (types live elsewhere and are reached through imports)
	for _, pkg := range pf.CtrlPackages {
		if pkgUsed[pkg] {
			p.Config.Globs = append(p.Config.Globs, "./"+pkg+"/*.go")
		}
	}
	if pf.Enforce {
		p.Config.Enforce = rapid.Bool().Draw(t, "enforce")
	}
	if pf.Experimental {
		p.Config.TopLevelEnum = rapid.Bool().Draw(t, "topLevelEnum")
		p.Config.EnumValidator = rapid.Bool().Draw(t, "enumValidator")
		p.Config.ValidateResp = rapid.Bool().Draw(t, "validateResp")
		if rapid.Bool().Draw(t, "pkgName") {
			p.Config.PackageName = rapid.SampledFrom([]string{"myroutes", "api_routes", "gen"}).Draw(t, "packageName")
		}
	}
	return p
}

// paramBlind rewrites every {name} of a path to {}: two templates that are equal then differ by parameter names only.
func paramBlind(path string) string {
	segs := segsOf(path)
	for i, sg := range segs {
		if isParamSeg(sg) {
			segs[i] = "{}"
		}
	}
	return strings.Join(segs, "/")
}

// mirrorController clones a controller the way one bounded context mirrors another in real services: the same method
// and parameter names, every declared type replaced by a declaration of the same kind from another package (when there
// is one), under a route prefix of its own. Whatever gleece keys by a name alone meets two different things here.
func mirrorController(p *Project, src *Controller, pf Profile) *Controller {
	b, _ := json.Marshal(src)
	var c Controller
	if json.Unmarshal(b, &c) != nil {
		return nil
	}
	counterpart := func(name, pkg string) (string, string) {
		var kind string
		for _, d := range p.Types {
			if d.Name == name && d.Pkg == pkg {
				kind = d.Kind
			}
		}
		for _, d := range p.Types {
			if kind != "" && kind != "raw" && d.Kind == kind && d.Pkg != pkg && !d.EmbedsError {
				return d.Name, d.Pkg
			}
		}
		// no declaration of that kind elsewhere: an enum or alias gets a twin in another type package
		if kind == "enum" || kind == "alias" {
			for _, other := range pf.TypePackages {
				if other == pkg {
					continue
				}
				for _, d := range p.Types {
					if d.Name == name && d.Pkg == pkg {
						twin := *d
						twin.Pkg, twin.Name = other, d.Name+"Twin"
						twin.Consts = nil
						for _, c := range d.Consts {
							twin.Consts = append(twin.Consts, EnumConst{Name: c.Name + "Twin", Value: c.Value, File: c.File})
						}
						p.Types = append(p.Types, &twin)
						return twin.Name, twin.Pkg
					}
				}
			}
		}
		return name, pkg
	}
	var mapType func(t *TypeRef)
	mapType = func(t *TypeRef) {
		if t == nil {
			return
		}
		if t.Kind == "named" {
			t.Name, t.Pkg = counterpart(t.Name, t.Pkg)
		}
		mapType(t.Elem)
	}
	c.Name = "Mirror" + src.Name
	c.File = "mirror_" + src.File
	for _, pkg := range pf.CtrlPackages {
		if pkg != src.Pkg {
			c.Pkg = pkg
			break
		}
	}
	c.HasRoute, c.Route = true, fmt.Sprintf("/mirror%d", len(p.Controllers))
	c.Grouped, c.GroupDoc, c.RawDoc = false, "", nil
	var methods []*Method
	for _, m := range c.Methods {
		if m.Decoy != "" || m.RawSig != "" || m.RawDoc != nil {
			continue
		}
		m.Name += "M"
		m.File = c.File
		if !strings.HasPrefix(m.Route, "/") {
			m.Route = "/" + m.Route // the source controller's prefix ended with the slash
		}
		if m.ErrType != nil {
			// custom error types live in the controller's own package: the mirror gets its own
			errName := "ApiError" + strings.ToUpper(pkgAlias(c.Pkg)[:1]) + pkgAlias(c.Pkg)[1:]
			if p.FindType(c.Pkg, errName) == nil {
				p.Types = append(p.Types, &TypeDecl{Name: errName, Pkg: c.Pkg, File: "errors.go", Kind: "struct", EmbedsError: true,
					Fields: []Field{{Name: "Code", Type: Prim("int"), JSON: "code"}, {Name: "Reason", Type: Prim("string")}}})
			}
			e := Named(c.Pkg, errName)
			if m.ErrType.IsPtr() {
				e = Ptr(e)
			}
			m.ErrType = &e
		}
		for i := range m.Params {
			mapType(&m.Params[i].Type)
		}
		mapType(m.Ret)
		methods = append(methods, m)
	}
	if len(methods) == 0 {
		return nil
	}
	c.Methods = methods
	return &c
}

// CollidingNamePool: names the generated handlers use themselves, package names they import, and
// snake/camel variants that collapse after lower-camel-casing.
var CollidingNamePool = []string{"value", "opError", "controller", "statusCode", "authErr", "conversionErr", "w", "req", "ginCtx", "echoCtx", "fiberCtx", "engine", "ctx2", "err",
	"user_id", "userId", "UserID", "json", "http", "runtime", "fmt", "strconv", "validatorErr", "middleware", "key", "emptyErr", "stdError", "validationError"}

// RenameCamelTwins returns a copy of the project in which parameters of one method whose names coincide once
// underscores and letter case are ignored (user_id / userId / UserID) are renamed apart (wire names kept).
func RenameCamelTwins(p *Project) (*Project, bool) {
	b, _ := json.Marshal(p)
	var q Project
	_ = json.Unmarshal(b, &q)
	changed := false
	for _, c := range q.Controllers {
		for _, m := range c.Methods {
			seen := map[string]bool{}
			for i := range m.Params {
				k := strings.ToLower(strings.ReplaceAll(m.Params[i].Name, "_", ""))
				if seen[k] {
					if m.Params[i].Wire == "" && m.Params[i].In != "context" && m.Params[i].In != "body" {
						m.Params[i].Wire = m.Params[i].Name
					}
					m.Params[i].Name = fmt.Sprintf("%sTwin%d", strings.ReplaceAll(m.Params[i].Name, "_", ""), i)
					changed = true
				}
				seen[k] = true
			}
		}
	}
	return &q, changed
}

// RenameColliding returns a copy of the project in which every parameter named like an entry of
// CollidingNamePool is renamed (wire names kept), and whether anything was renamed.
func RenameColliding(p *Project) (*Project, bool) {
	b, _ := json.Marshal(p)
	var q Project
	_ = json.Unmarshal(b, &q)
	changed := false
	for _, c := range q.Controllers {
		for _, m := range c.Methods {
			for i := range m.Params {
				for _, n := range CollidingNamePool {
					if m.Params[i].Name == n {
						if m.Params[i].Wire == "" && m.Params[i].In != "context" && m.Params[i].In != "body" {
							m.Params[i].Wire = n
						}
						// the index keeps the new names apart once they are camel-cased (user_id / userId)
						m.Params[i].Name = fmt.Sprintf("prm%s%s%dZz", strings.ToUpper(n[:1]), strings.ReplaceAll(n[1:], "_", ""), i)
						changed = true
					}
				}
			}
		}
	}
	return &q, changed
}

// ExcludedConflictingRules counts rule combinations dropped by construction (evidence only).
var ExcludedConflictingRules int

// ValidatorGroups names the schema keywords a validator rule writes.
func ValidatorGroups(rule string) []string {
	switch rule {
	case "gt", "gte", "min", "minItems":
		return []string{"lower"}
	case "lt", "lte", "max", "maxItems":
		return []string{"upper"}
	case "len":
		return []string{"lower", "upper"}
	case "enum", "oneof":
		return []string{"enum"}
	case "email", "uuid", "ip", "ipv4", "ipv6", "hostname", "date", "datetime":
		return []string{"format"}
	}
	return nil
}

// ConflictingRules reports whether a validator string holds two rules writing the same keyword.
func ConflictingRules(v string) bool {
	used := map[string]bool{}
	for _, r := range strings.Split(v, ",") {
		for _, g := range ValidatorGroups(strings.SplitN(r, "=", 2)[0]) {
			if used[g] {
				return true
			}
			used[g] = true
		}
	}
	return false
}

func genValidator(t *rapid.T, pf Profile, typ TypeRef) string {
	if !pf.Validators {
		return ""
	}
	if skip := rapid.IntRange(0, 3).Draw(t, "hasValidator"); (pf.RichValidators && skip == 0) || (!pf.RichValidators && skip > 1) {
		return ""
	}
	base := typ.Deref()
	if pf.RichValidators {
		n := rapid.IntRange(1, 3).Draw(t, "nRules")
		var pool []string
		switch {
		case base.Kind == "prim" && base.Name == "string":
			pool = []string{"email", "uuid", "ip", "ipv4", "ipv6", "hostname", "date", "datetime", "min=1", "max=10", "len=5", "pattern=^[a-z]+$", "enum=a|b|c", "oneof=a b c", "required", "oneof=required optional", "enum=required|not_required",
				// arguments that contain the separator itself
				"oneof=k=asc k=desc", "pattern=^[a-z]+=[0-9]+$", "enum=a=1|b=2"}
		case base.Kind == "prim" && base.Name == "bool":
			pool = []string{"required"}
		case base.Kind == "prim":
			pool = []string{"gt=1", "gte=0", "lt=100", "lte=50", "min=1", "max=9", "oneof=1 2 3", "required", "gt=0.5", "lte=2.5"}
		case base.Kind == "slice":
			pool = []string{"required", "minItems=1", "maxItems=3", "uniqueItems=true", "min=1", "max=3"}
		default:
			pool = []string{"required"}
		}
		drawn := rapid.SliceOfNDistinct(rapid.SampledFrom(pool), 1, n, func(s string) string { return strings.SplitN(s, "=", 2)[0] }).Draw(t, "rules")
		// Two rules that write the same schema keyword (gt and min, len and max, enum and oneof, two
		// formats) cannot both be represented; such contradictory combinations are kept out of the main
		// profiles (the later rule wins differently in the two emitters: finding F-C11-2) and counted.
		var rules []string
		used := map[string]bool{}
		for _, r := range drawn {
			groups := ValidatorGroups(strings.SplitN(r, "=", 2)[0])
			clash := false
			for _, g := range groups {
				if used[g] {
					clash = true
				}
			}
			if clash {
				ExcludedConflictingRules++
				continue
			}
			for _, g := range groups {
				used[g] = true
			}
			rules = append(rules, r)
		}
		return strings.Join(rules, ",")
	}
	switch {
	case base.Kind == "prim" && base.Name == "string":
		return rapid.SampledFrom([]string{"email", "uuid", "min=1", "max=10", "len=5", "min=2,max=8", "oneof=a b c", "required", "ipv4", "hostname", "oneof=required optional", "oneof=required optional"}).Draw(t, "sval")
	case base.Kind == "prim" && base.Name == "bool":
		return ""
	case base.Kind == "prim" && strings.HasPrefix(base.Name, "float"):
		// go-playground's oneof panics on floats ("Bad field type"): not a rule a working service can carry
		return rapid.SampledFrom([]string{"gt=1", "gte=0", "lt=100", "lte=50", "min=1", "max=9", "gte=1,lte=5", "required"}).Draw(t, "fval")
	case base.Kind == "prim":
		return rapid.SampledFrom([]string{"gt=1", "gte=0", "lt=100", "lte=50", "min=1", "max=9", "gte=1,lte=5", "oneof=1 2 3", "required"}).Draw(t, "nval")
	case base.Kind == "slice":
		return rapid.SampledFrom([]string{"required", "min=1", "max=3"}).Draw(t, "aval")
	}
	return rapid.SampledFrom([]string{"", "required"}).Draw(t, "oval")
}

func genExtraParams(t *rapid.T, pf Profile, m *Method, types *typeCtx) {
	n := rapid.IntRange(0, pf.ExtraParams).Draw(t, "nExtra")
	bodyMode := "none"
	if m.Verb != "GET" && m.Verb != "DELETE" {
		bodyMode = rapid.SampledFrom([]string{"none", "body", "body", "form"}).Draw(t, "bodyMode")
		if bodyMode == "form" && !pf.FormParams {
			bodyMode = "none"
		}
		if bodyMode == "body" && (types == nil || len(types.structs) == 0) {
			bodyMode = "none"
		}
	}
	used := map[string]bool{}
	for _, p := range m.Params {
		used[p.Name], used[p.WireName()] = true, true
	}
	hasBody := false
	groupLeft := 0
	for i := 0; i < n; i++ {
		prm := Param{Name: fmt.Sprintf("%s%d", rapid.SampledFrom([]string{"q", "limit", "flag", "hdr", "val"}).Draw(t, "xname"), i)}
		if pf.CollidingNames && rapid.IntRange(0, 2).Draw(t, "collide") == 0 {
			// names the generated handlers use themselves, snake/camel variants that collapse after ToLowerCamel
			cand := rapid.SampledFrom(CollidingNamePool).Draw(t, "collidingName")
			clash := false
			for _, o := range m.Params {
				if o.Name == cand {
					clash = true
				}
			}
			if !clash {
				prm.Name = cand
			}
		}
		ins := []string{"query", "query", "header"}
		if bodyMode == "form" {
			ins = append(ins, "form", "form")
		}
		if bodyMode == "body" && !hasBody {
			ins = append(ins, "body", "body", "body")
		}
		prm.In = rapid.SampledFrom(ins).Draw(t, "in")
		switch prm.In {
		case "body":
			hasBody = true
			prm.Type = types.bodyType(t)
		default:
			prm.Type = Prim(rapid.SampledFrom(extraParamTypes).Draw(t, "xtype"))
			if types != nil && rapid.IntRange(0, 3).Draw(t, "namedParam") == 0 {
				if nt, ok := types.scalarNamed(t); ok {
					prm.Type = nt
				}
			}
			if pf.SliceQuery && prm.In == "query" && rapid.IntRange(0, 4).Draw(t, "sliceQ") == 0 {
				prm.Type = Slice(prm.Type)
			}
		}
		// names that recur from controller to controller, as they do in real APIs: the body is "body", a parameter of a
		// declared type is called after its type (status models.Status0 here, status shared.Status1 there)
		if rapid.IntRange(0, 2).Draw(t, "recurringName") > 0 {
			cand := ""
			if prm.In == "body" {
				cand = rapid.SampledFrom([]string{"body", "payload"}).Draw(t, "bodyName")
			} else if nb := prm.Type.Base(); nb.Kind == "named" {
				cand = strings.ToLower(strings.TrimRight(nb.Name, "0123456789"))
			}
			if cand != "" && !used[cand] {
				clash := false
				for _, o := range m.Params {
					if o.Name == cand || o.WireName() == cand {
						clash = true
					}
				}
				if !clash {
					prm.Name = cand
				}
			}
		}
		if pf.PtrParams && rapid.IntRange(0, 2).Draw(t, "ptr") == 0 && prm.Type.Kind != "slice" && prm.Type.Kind != "map" {
			prm.Type = Ptr(prm.Type)
		}
		if prm.In != "body" && rapid.IntRange(0, 2).Draw(t, "wire") == 0 {
			prm.Wire = rapid.SampledFrom([]string{"X-Custom", "page_size", "sort-by", "Q", "x.y"}).Draw(t, "wireName") + fmt.Sprint(i)
		}
		prm.Validator = genValidator(t, pf, prm.Type)
		prm.Desc = genDesc(t, "pdesc")
		if pf.GroupedParams && i > 0 && len(m.Params) > 0 {
			prev := m.Params[len(m.Params)-1]
			eligible := prev.In != "context" && prev.In != "path" && prev.In != "body" && prm.In != "body"
			if eligible && groupLeft == 0 && rapid.IntRange(0, 3).Draw(t, "group") == 0 {
				// runs of two to four names in one declaration, usually followed by further parameters
				groupLeft = rapid.IntRange(1, 3).Draw(t, "groupLen")
			}
			if eligible && groupLeft > 0 {
				// "a, b T": same type, and the same location so that the type stays legal there
				groupLeft--
				prm.Type, prm.In, prm.Grouped = prev.Type, prev.In, true
				prm.Validator = ""
			} else {
				if eligible && prev.Grouped && groupLeft == 0 && (pf.GroupFollowerSameType || rapid.Bool().Draw(t, "sameTypeAfterGroup")) {
					// "a, b, c int, d int": a separate declaration of the group's type right after it; handing the
					// arguments over in another order than the signature's still compiles
					prm.Type, prm.In = prev.Type, prev.In
					prm.Validator = ""
				}
				groupLeft = 0
			}
		}
		m.Params = append(m.Params, prm)
	}
	if pf.ContextParams && rapid.IntRange(0, 3).Draw(t, "ctx") == 0 {
		pos := rapid.IntRange(0, len(m.Params)).Draw(t, "ctxPos")
		// never split a grouped declaration
		for pos < len(m.Params) && m.Params[pos].Grouped {
			pos++
		}
		if pf.GroupFollowerSameType && pos > 0 && m.Params[pos-1].Grouped {
			pos = 0 // not directly behind a group either (see GroupFollowerSameType)
		}
		ctx := Param{Name: "ctx", In: "context", Type: TypeRef{Kind: "context"}}
		m.Params = append(m.Params[:pos], append([]Param{ctx}, m.Params[pos:]...)...)
	}
}

func genResults(t *rapid.T, pf Profile, p *Project, c *Controller, m *Method, types *typeCtx) {
	if rapid.IntRange(0, 2).Draw(t, "hasRet") > 0 {
		var r TypeRef
		if types != nil && rapid.IntRange(0, 3).Draw(t, "retNamed") > 0 {
			r = types.anyType(t, 2)
		} else {
			r = Prim(rapid.SampledFrom(primTypes).Draw(t, "retPrim"))
		}
		m.Ret = &r
	}
	if !pf.Responses {
		return
	}
	if types != nil && rapid.IntRange(0, 3).Draw(t, "customErr") == 0 {
		// Custom error types live in the controller's own package: gleece resolves the error type
		// inside the package of the method that returns it (see finding F-C10-3 for the other case).
		// type names are unique across packages (gleece keys components by bare name)
		errName := "ApiError" + strings.ToUpper(pkgAlias(c.Pkg)[:1]) + pkgAlias(c.Pkg)[1:]
		if p.FindType(c.Pkg, errName) == nil {
			p.Types = append(p.Types, &TypeDecl{Name: errName, Pkg: c.Pkg, File: "errors.go", Kind: "struct", EmbedsError: true,
				Fields: []Field{{Name: "Code", Type: Prim("int"), JSON: "code"}, {Name: "Reason", Type: Prim("string")}}})
		}
		e := Named(c.Pkg, errName)
		if rapid.Bool().Draw(t, "errPtr") {
			e = Ptr(e)
		}
		m.ErrType = &e
	}
	if rapid.IntRange(0, 3).Draw(t, "hasResponse") == 0 {
		code := 200
		if m.Ret != nil {
			code = rapid.SampledFrom([]int{200, 201, 202}).Draw(t, "okCode")
		} else {
			code = rapid.SampledFrom([]int{204, 200, 202}).Draw(t, "okCodeVoid")
		}
		m.Response = &ErrResp{Code: code, Desc: genDesc(t, "respDesc")}
	}
	codes := rapid.SliceOfNDistinct(rapid.SampledFrom([]int{400, 401, 403, 404, 409, 422, 500, 503}), 0, 3, func(i int) int { return i }).Draw(t, "errCodes")
	for _, c := range codes {
		m.Errors = append(m.Errors, ErrResp{Code: c, Desc: genDesc(t, "errDesc")})
	}
}

// FullProfile switches everything on (used by the generator self-test and the spec-level labs).
var FullProfile = Profile{
	MaxControllers: 3, MaxMethods: 5, CtrlPackages: []string{"api", "api2", "internal/api3"},
	Decoys: true, Hidden: true, Security: true, ExtraParams: 4, Types: true, TypePackages: []string{"models", "shared"},
	Validators: true, Responses: true, SlashNoise: true, SharedPrefix: true, PtrParams: true, FormParams: true,
	ContextParams: true, GroupedParams: true, SliceQuery: true, TrailingSlash: true, StrayController: true, MirrorController: true, AllowOverlap: true,
}

// SecurityProfile biases towards C04: every level of security, varied scheme catalogue, enforce flag.
var SecurityProfile = Profile{
	MaxControllers: 3, MaxMethods: 4, CtrlPackages: []string{"api", "api2"},
	Hidden: true, Security: true, Enforce: true, ExtraParams: 1, SharedPrefix: true, VarySchemes: true, UndeclaredScheme: true, AllowOverlap: true,
}

// RouterProfile: batch projects for the router lab (many routes per project, bodies the harness can synthesise).
var RouterProfile = Profile{
	MaxControllers: 4, MaxMethods: 8, MinMethods: 3, CtrlPackages: []string{"api", "api2", "internal/api3"},
	Decoys: true, Hidden: true, Security: true, ExtraParams: 6, Types: true, TypePackages: []string{"models", "shared"}, FlatStructs: true,
	Validators: true, Responses: true, SlashNoise: true, SharedPrefix: true, PtrParams: true, FormParams: true,
	ContextParams: true, GroupedParams: true, SliceQuery: true, PtrPathParams: false, NoNamedInMaps: true, TrailingSlash: true, StrayController: true, GroupFollowerSameType: true, MirrorController: true,
}
