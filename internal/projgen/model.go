// Package projgen holds the structured MODEL of a gleece project, the renderer that turns a
// model into Go source files + a gleece config, and the reference predictions (what the
// statement of each property says the artefacts must contain) computed from the model alone.
package projgen

import (
	"fmt"
	"regexp"
	"sort"
	"strings"
)

const Module = "example.com/gen"

// TypeRef is a usage of a type.
type TypeRef struct {
	Kind string   `json:"k"`           // prim named ptr slice map time bytes any context error
	Name string   `json:"n,omitempty"` // primitive name or declared type name
	Pkg  string   `json:"p,omitempty"` // package dir of a declared type
	Elem *TypeRef `json:"e,omitempty"`
}

func Prim(n string) TypeRef       { return TypeRef{Kind: "prim", Name: n} }
func Named(pkg, n string) TypeRef { return TypeRef{Kind: "named", Name: n, Pkg: pkg} }
func Ptr(t TypeRef) TypeRef       { return TypeRef{Kind: "ptr", Elem: &t} }
func Slice(t TypeRef) TypeRef     { return TypeRef{Kind: "slice", Elem: &t} }
func MapOf(t TypeRef) TypeRef     { return TypeRef{Kind: "map", Elem: &t} }
func (t TypeRef) IsPtr() bool     { return t.Kind == "ptr" }
func (t TypeRef) IsContext() bool { return t.Kind == "context" }
func (t TypeRef) Deref() TypeRef {
	if t.Kind == "ptr" {
		return *t.Elem
	}
	return t
}

// Base strips pointers and slices.
func (t TypeRef) Base() TypeRef {
	for t.Kind == "ptr" || t.Kind == "slice" {
		t = *t.Elem
	}
	return t
}

// GoExpr renders the type as seen from package dir `from`; imports get the packages it needs.
func (t TypeRef) GoExpr(from string, imports map[string]bool) string {
	switch t.Kind {
	case "prim":
		return t.Name
	case "named":
		if t.Pkg == from || t.Pkg == "" {
			return t.Name
		}
		imports[Module+"/"+t.Pkg] = true
		return pkgAlias(t.Pkg) + "." + t.Name
	case "ptr":
		return "*" + t.Elem.GoExpr(from, imports)
	case "slice":
		return "[]" + t.Elem.GoExpr(from, imports)
	case "map":
		return "map[string]" + t.Elem.GoExpr(from, imports)
	case "time":
		imports["time"] = true
		return "time.Time"
	case "bytes":
		return "[]byte"
	case "any":
		return "any"
	case "context":
		imports["context"] = true
		return "context.Context"
	case "error":
		return "error"
	}
	return "/*bad type*/ any"
}

func pkgAlias(dir string) string {
	if i := strings.LastIndex(dir, "/"); i >= 0 {
		return dir[i+1:]
	}
	return dir
}

type Field struct {
	Name       string  `json:"name"`
	Type       TypeRef `json:"type"`
	JSON       string  `json:"json,omitempty"`     // json tag value ("" = none)
	Validate   string  `json:"validate,omitempty"` // validate tag value
	Embedded   bool    `json:"embedded,omitempty"`
	Unexported bool    `json:"unexported,omitempty"`
	Desc       string  `json:"desc,omitempty"`
	Raw        string  `json:"raw,omitempty"` // when set, the whole field line verbatim (hostile-construct labs)
}

type EnumConst struct {
	Name  string `json:"name"`
	Value string `json:"value"`          // Go literal
	File  string `json:"file,omitempty"` // declared in another file of the package ("" = with the type)
}

// TypeDecl is a declared type: struct, enum (named basic type with constants) or alias.
type TypeDecl struct {
	MultiNameConsts bool        `json:"multiNameConsts,omitempty"` // enum constants of the type's own file share one ValueSpec: A, B T = 1, 2
	Name            string      `json:"name"`
	Pkg             string      `json:"pkg"`
	File            string      `json:"file"`
	Kind            string      `json:"kind"`              // struct enum alias raw
	Raw             string      `json:"raw,omitempty"`     // kind raw: declaration text verbatim
	Imports         []string    `json:"imports,omitempty"` // extra imports the raw text needs
	Fields          []Field     `json:"fields,omitempty"`
	Base            string      `json:"base,omitempty"` // enum/alias underlying primitive
	Consts          []EnumConst `json:"consts,omitempty"`
	Assigned        bool        `json:"assigned,omitempty"` // type A = string
	Desc            string      `json:"desc,omitempty"`
	EmbedsError     bool        `json:"embedsError,omitempty"` // struct embedding `error` (custom error type)
}

type Sec struct {
	Scheme string   `json:"scheme"`
	Scopes []string `json:"scopes"`
}

type Param struct {
	Name      string  `json:"name"` // Go parameter name
	Type      TypeRef `json:"type"`
	In        string  `json:"in"`                  // path query header form body context
	Wire      string  `json:"wire,omitempty"`      // {name: "..."} alias ("" = none)
	Validator string  `json:"validator,omitempty"` // {validate: "..."}
	Desc      string  `json:"desc,omitempty"`
	Grouped   bool    `json:"grouped,omitempty"` // declared together with the previous parameter (a, b string)
}

func (p Param) WireName() string {
	if p.Wire != "" {
		return p.Wire
	}
	return p.Name
}

type ErrResp struct {
	Code int    `json:"code"`
	Desc string `json:"desc,omitempty"`
}

type Method struct {
	Name       string    `json:"name"`
	File       string    `json:"file"` // file (in the controller's package) holding the method
	Verb       string    `json:"verb"`
	Route      string    `json:"route"`
	Hidden     bool      `json:"hidden,omitempty"`
	Deprecated bool      `json:"deprecated,omitempty"`
	Security   []Sec     `json:"security,omitempty"`
	Params     []Param   `json:"params,omitempty"`
	Ret        *TypeRef  `json:"ret,omitempty"`
	ErrType    *TypeRef  `json:"errType,omitempty"`  // nil = plain error
	Response   *ErrResp  `json:"response,omitempty"` // @Response(code) desc
	Errors     []ErrResp `json:"errors,omitempty"`
	Desc       []string  `json:"desc,omitempty"`       // leading free-text lines
	Decoy      string    `json:"decoy,omitempty"`      // "" | noMethod | noRoute | noDoc | otherReceiver
	AnnOrder   []int     `json:"annOrder,omitempty"`   // permutation seed for annotation order
	ValueRecv  bool      `json:"valueRecv,omitempty"`  // func (c Ctl) instead of (c *Ctl)
	RawDoc     []string  `json:"rawDoc,omitempty"`     // when set, replaces the rendered annotation block (perturbation labs)
	RawSig     string    `json:"rawSig,omitempty"`     // when set, replaces "(params) (results)" (perturbation labs)
	RawImports []string  `json:"rawImports,omitempty"` // imports the raw signature needs
}

type Controller struct {
	Name       string    `json:"name"`
	Pkg        string    `json:"pkg"`
	File       string    `json:"file"`
	Tag        *string   `json:"tag"`
	Route      string    `json:"route"`
	HasRoute   bool      `json:"hasRoute"`
	Security   []Sec     `json:"security,omitempty"`
	Desc       string    `json:"desc,omitempty"`
	Deprecated bool      `json:"deprecated,omitempty"`
	Grouped    bool      `json:"grouped,omitempty"`  // declared inside type ( ... )
	GroupDoc   string    `json:"groupDoc,omitempty"` // free text above "type (" when grouped
	RawDoc     []string  `json:"rawDoc,omitempty"`   // when set, replaces the rendered comment block
	Methods    []*Method `json:"methods"`
}

type Scheme struct {
	Name        string         `json:"name"`
	Type        string         `json:"type"` // apiKey http oauth2 openIdConnect
	In          string         `json:"in,omitempty"`
	FieldName   string         `json:"fieldName,omitempty"`
	HTTPScheme  string         `json:"scheme,omitempty"`
	OpenIDURL   string         `json:"openIdConnectUrl,omitempty"`
	Description string         `json:"description"`
	Flows       map[string]any `json:"flows,omitempty"`
}

type Config struct {
	Engine        string   `json:"engine"`
	OpenAPI       string   `json:"openapi"`
	Globs         []string `json:"globs"`
	RoutesOut     string   `json:"routesOut"`
	SpecOut       string   `json:"specOut"`
	Perms         string   `json:"perms,omitempty"`
	PackageName   string   `json:"packageName,omitempty"`
	AuthPkg       string   `json:"authPkg"`
	Enforce       bool     `json:"enforce,omitempty"`
	DefaultSec    *Sec     `json:"defaultSec,omitempty"`
	Schemes       []Scheme `json:"schemes"`
	Title         string   `json:"title"`
	Version       string   `json:"version"`
	Description   string   `json:"description,omitempty"`
	BaseURL       string   `json:"baseUrl"`
	Contact       bool     `json:"contact,omitempty"`
	License       bool     `json:"license,omitempty"`
	SkipDate      bool     `json:"skipDate,omitempty"`
	ValidateResp  bool     `json:"validateResponse,omitempty"`
	TopLevelEnum  bool     `json:"validateTopLevelOnlyEnum,omitempty"`
	EnumValidator bool     `json:"generateEnumValidator,omitempty"`
}

// ExtraFile is any additional source file (decoy declarations, files outside the globs…).
type ExtraFile struct {
	Pkg  string `json:"pkg"`
	Name string `json:"name"`
	Body string `json:"body"` // without the package clause
}

type Project struct {
	Controllers []*Controller `json:"controllers"`
	Types       []*TypeDecl   `json:"types,omitempty"`
	Extra       []ExtraFile   `json:"extra,omitempty"`
	Config      Config        `json:"config"`
	// LayoutNoise: blank lines / unrelated declarations inserted before each controller (by index)
	Noise []int `json:"noise,omitempty"`
}

// ---- derived facts ------------------------------------------------------------------

var multiSlash = regexp.MustCompile(`/+`)

// NormalisePath is the statement's normalisation: concatenate, collapse runs of '/'.
func NormalisePath(prefix, route string) string {
	return multiSlash.ReplaceAllString(prefix+route, "/")
}

func (c *Controller) Prefix() string {
	if c.HasRoute {
		return c.Route
	}
	return ""
}

func (c *Controller) TagValue() string {
	if c.Tag == nil {
		return ""
	}
	return *c.Tag
}

// RealMethods are the methods that are API endpoints (decoys excluded).
func (c *Controller) RealMethods() []*Method {
	var out []*Method
	for _, m := range c.Methods {
		if m.Decoy == "" {
			out = append(out, m)
		}
	}
	return out
}

type Op struct {
	Verb, Path string
	Controller *Controller
	Method     *Method
}

// ExpectedOps lists every annotated route with its normalised full path.
func (p *Project) ExpectedOps() []Op {
	var ops []Op
	for _, c := range p.Controllers {
		for _, m := range c.RealMethods() {
			ops = append(ops, Op{Verb: m.Verb, Path: NormalisePath(c.Prefix(), m.Route), Controller: c, Method: m})
		}
	}
	sort.Slice(ops, func(i, j int) bool {
		if ops[i].Path != ops[j].Path {
			return ops[i].Path < ops[j].Path
		}
		return ops[i].Verb < ops[j].Verb
	})
	return ops
}

// EffectiveSecurity: the method's own list if it has one, otherwise the controller's,
// otherwise the configured default, otherwise none.
func (p *Project) EffectiveSecurity(c *Controller, m *Method) []Sec {
	if len(m.Security) > 0 {
		return m.Security
	}
	if len(c.Security) > 0 {
		return c.Security
	}
	if p.Config.DefaultSec != nil {
		return []Sec{*p.Config.DefaultSec}
	}
	return nil
}

func (p *Project) FindType(pkg, name string) *TypeDecl {
	for _, t := range p.Types {
		if t.Name == name && (t.Pkg == pkg || pkg == "") {
			return t
		}
	}
	return nil
}

func (p *Project) Describe() string {
	var sb strings.Builder
	for _, c := range p.Controllers {
		fmt.Fprintf(&sb, "%s/%s %s prefix=%q tag=%q sec=%v\n", c.Pkg, c.File, c.Name, c.Prefix(), c.TagValue(), c.Security)
		for _, m := range c.Methods {
			fmt.Fprintf(&sb, "  %s %s %q (%s) hidden=%v decoy=%q sec=%v params=%d\n", m.Verb, m.Name, m.Route, m.File, m.Hidden, m.Decoy, m.Security, len(m.Params))
		}
	}
	return sb.String()
}
