package projgen

import (
	"sort"
	"strings"
)

// Required is the statement's rule (C06): required iff the parameter is a non-pointer, a
// path parameter, or explicitly validated as required.
func (p Param) Required() bool {
	if !p.Type.IsPtr() || p.In == "path" {
		return true
	}
	for _, r := range strings.Split(p.Validator, ",") {
		if r == "required" {
			return true
		}
	}
	return false
}

func FieldRequired(f Field) bool {
	for _, r := range strings.Split(f.Validate, ",") {
		if r == "required" {
			return true
		}
	}
	return false
}

// JSONName is the name a field is documented under; "" when it is not JSON-visible.
func (f Field) JSONName() string {
	if f.Unexported {
		return ""
	}
	if f.JSON == "-" {
		return ""
	}
	if f.JSON != "" {
		if n := strings.Split(f.JSON, ",")[0]; n != "" {
			return n
		}
	}
	return f.Name
}

// SuccessCode: 200 with a value, 204 without, or the @Response code.
func (m *Method) SuccessCode() int {
	if m.Response != nil {
		return m.Response.Code
	}
	if m.Ret != nil {
		return 200
	}
	return 204
}

// ErrorSchemaName: the standard RFC-7807 model for a plain error, otherwise the custom type.
func (m *Method) ErrorSchemaName() string {
	if m.ErrType == nil {
		return "Rfc7807Error"
	}
	return m.ErrType.Base().Name
}

// Reachable returns the declared types reachable from any route's parameters or results
// (through fields, pointers, slices, maps, embedding, other packages), keyed by name.
func (p *Project) Reachable() map[string]*TypeDecl {
	out := map[string]*TypeDecl{}
	var visit func(t TypeRef)
	visit = func(t TypeRef) {
		switch t.Kind {
		case "ptr", "slice", "map":
			visit(*t.Elem)
		case "named":
			d := p.FindType(t.Pkg, t.Name)
			if d == nil || out[d.Name] == d {
				return
			}
			out[d.Name] = d
			for _, f := range d.Fields {
				if f.Raw == "" {
					visit(f.Type)
				}
			}
		}
	}
	for _, c := range p.Controllers {
		for _, m := range c.RealMethods() {
			for _, prm := range m.Params {
				visit(prm.Type)
			}
			if m.Ret != nil {
				visit(*m.Ret)
			}
			if m.ErrType != nil {
				visit(*m.ErrType)
			}
		}
	}
	return out
}

func (p *Project) AnyPlainError() bool {
	for _, c := range p.Controllers {
		for _, m := range c.RealMethods() {
			if m.ErrType == nil {
				return true
			}
		}
	}
	return false
}

func SortedTypeNames(m map[string]*TypeDecl) []string {
	ks := make([]string, 0, len(m))
	for k := range m {
		ks = append(ks, k)
	}
	sort.Strings(ks)
	return ks
}
