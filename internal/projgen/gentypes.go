package projgen

import (
	"fmt"

	"pgregory.net/rapid"
)

// typeCtx is the pool of declared types a project's routes may use.
type typeCtx struct {
	noNamedInMaps bool
	structs       []TypeRef // usable as body / result
	enums         []TypeRef
	aliases       []TypeRef
	errTypes      []TypeRef // structs embedding error
}

func (c *typeCtx) bodyType(t *rapid.T) TypeRef {
	s := rapid.SampledFrom(c.structs).Draw(t, "bodyStruct")
	switch rapid.IntRange(0, 5).Draw(t, "bodyShape") {
	case 0:
		return Slice(s)
	case 1:
		if !c.noNamedInMaps {
			return MapOf(s)
		}
		ExcludedNamedInMaps++
	}
	return s
}

func (c *typeCtx) scalarNamed(t *rapid.T) (TypeRef, bool) {
	pool := append(append([]TypeRef{}, c.enums...), c.aliases...)
	if len(pool) == 0 {
		return TypeRef{}, false
	}
	return rapid.SampledFrom(pool).Draw(t, "scalarNamed"), true
}

// anyType draws a result/field type of bounded depth.
func (c *typeCtx) anyType(t *rapid.T, depth int) TypeRef {
	kinds := []string{"prim", "prim", "struct", "struct", "enum", "alias", "time"}
	if depth > 0 {
		kinds = append(kinds, "slice", "slice", "map", "ptr")
	}
	for {
		switch rapid.SampledFrom(kinds).Draw(t, "tkind") {
		case "prim":
			return Prim(rapid.SampledFrom(primTypes).Draw(t, "prim"))
		case "struct":
			if len(c.structs) > 0 {
				return rapid.SampledFrom(c.structs).Draw(t, "struct")
			}
		case "enum":
			if len(c.enums) > 0 {
				return rapid.SampledFrom(c.enums).Draw(t, "enum")
			}
		case "alias":
			if len(c.aliases) > 0 {
				return rapid.SampledFrom(c.aliases).Draw(t, "alias")
			}
		case "time":
			return TypeRef{Kind: "time"}
		case "slice":
			return Slice(c.anyType(t, depth-1))
		case "map":
			inner := c.anyType(t, depth-1)
			if c.noNamedInMaps && inner.Base().Kind == "named" {
				ExcludedNamedInMaps++
				inner = Prim("int")
			}
			return MapOf(inner)
		case "ptr":
			inner := c.anyType(t, 0)
			return Ptr(inner)
		}
		kinds = []string{"prim"}
	}
}

// ExcludedNamedInMaps counts shapes re-drawn because of finding F-C09-2 (evidence only).
var ExcludedNamedInMaps int

var enumBases = []string{"string", "int", "int32", "uint8", "float64"}

func enumLiteral(base string, i int) string {
	switch base {
	case "string":
		return fmt.Sprintf("%q", []string{"active", "inactive", "pending", "x-y", "Z"}[i%5])
	case "float64":
		return []string{"0.5", "1.5", "2.25", "3.75", "10"}[i%5]
	default:
		return fmt.Sprint(i + 1)
	}
}

// genTypes declares 1-4 structs, 0-2 enums, 0-2 aliases over one or two type packages.
// By-value struct references only point to earlier declarations (Go forbids value cycles);
// pointer/slice/map references may point anywhere, including the struct itself.
func genTypes(t *rapid.T, p *Project, pf Profile) *typeCtx {
	ctx := &typeCtx{noNamedInMaps: pf.NoNamedInMaps}
	pkgs := pf.TypePackages
	if len(pkgs) == 0 {
		pkgs = []string{"models"}
	}
	for i, pk := range pkgs {
		pkgOrder[pk] = i
	}
	pickPkg := func() string { return rapid.SampledFrom(pkgs).Draw(t, "typePkg") }

	ne := rapid.IntRange(0, 2).Draw(t, "nEnums")
	for i := 0; i < ne; i++ {
		pkg := pickPkg()
		base := rapid.SampledFrom(enumBases).Draw(t, "enumBase")
		d := &TypeDecl{Name: fmt.Sprintf("%s%d", rapid.SampledFrom([]string{"Status", "Kind", "Level"}).Draw(t, "enumName"), i), Pkg: pkg, File: "enums.go", Kind: "enum", Base: base}
		nv := rapid.IntRange(1, 5).Draw(t, "nConsts")
		for v := 0; v < nv; v++ {
			c := EnumConst{Name: fmt.Sprintf("%sV%d", d.Name, v), Value: enumLiteral(base, v)}
			if rapid.IntRange(0, 4).Draw(t, "constElsewhere") == 0 {
				c.File = "consts_more.go"
			}
			d.Consts = append(d.Consts, c)
		}
		if len(d.Consts) >= 3 && rapid.IntRange(0, 2).Draw(t, "dupValue") == 0 {
			// two names for one value (StatusOn = "on"; StatusEnabled = "on"): legal Go, and the enum still has that value once
			d.Consts[1].Value = d.Consts[0].Value
		}
		d.MultiNameConsts = rapid.IntRange(0, 3).Draw(t, "multiNameConsts") == 0
		p.Types = append(p.Types, d)
		ctx.enums = append(ctx.enums, Named(pkg, d.Name))
	}
	na := rapid.IntRange(0, 2).Draw(t, "nAliases")
	for i := 0; i < na; i++ {
		pkg := pickPkg()
		d := &TypeDecl{Name: fmt.Sprintf("%s%d", rapid.SampledFrom([]string{"UserID", "Token", "Amount"}).Draw(t, "aliasName"), i), Pkg: pkg, File: "aliases.go", Kind: "alias",
			Base: rapid.SampledFrom([]string{"string", "int", "int64", "float64", "bool"}).Draw(t, "aliasBase"), Assigned: rapid.IntRange(0, 2).Draw(t, "assigned") == 0}
		p.Types = append(p.Types, d)
		ctx.aliases = append(ctx.aliases, Named(pkg, d.Name))
	}
	ns := rapid.IntRange(1, 4).Draw(t, "nStructs")
	names := make([]string, ns)
	spkgs := make([]string, ns)
	for i := range names {
		names[i] = fmt.Sprintf("%s%d", rapid.SampledFrom([]string{"User", "Item", "Order", "Meta"}).Draw(t, "structName"), i)
		spkgs[i] = pickPkg()
	}
	for i := 0; i < ns; i++ {
		d := &TypeDecl{Name: names[i], Pkg: spkgs[i], File: fmt.Sprintf("%s.go", rapid.SampledFrom([]string{"types", "dto", "models"}).Draw(t, "structFile")), Kind: "struct", Desc: genDesc(t, "structDesc")}
		nf := rapid.IntRange(0, 5).Draw(t, "nFields")
		for f := 0; f < nf; f++ {
			fl := Field{Name: fmt.Sprintf("%s%d", rapid.SampledFrom([]string{"Name", "Count", "Tags", "Owner", "When", "Extra"}).Draw(t, "fieldName"), f)}
			fl.Type = genFieldType(t, ctx, names, spkgs, i, 2)
			if pf.FlatStructs {
				fl.Type = rapid.SampledFrom([]TypeRef{Prim("string"), Prim("int"), Prim("int32"), Prim("uint8"), Prim("bool"), Prim("float64"), Slice(Prim("string"))}).Draw(t, "flatType")
			}
			switch rapid.IntRange(0, 4).Draw(t, "jsonTag") {
			case 0:
				fl.JSON = fmt.Sprintf("%s_%d", rapid.SampledFrom([]string{"name", "count", "tags", "owner"}).Draw(t, "jsonName"), f)
			case 1:
				fl.JSON = fmt.Sprintf("f%d,omitempty", f)
			}
			if !pf.FlatStructs {
				fl.Validate = genValidator(t, pf, fl.Type)
			}
			fl.Desc = genDesc(t, "fieldDesc")
			d.Fields = append(d.Fields, fl)
		}
		// embedding an earlier struct
		if !pf.FlatStructs && i > 0 && rapid.IntRange(0, 4).Draw(t, "embed") == 0 {
			j := rapid.IntRange(0, i-1).Draw(t, "embedWhich")
			if canRef(spkgs[i], spkgs[j]) {
				d.Fields = append(d.Fields, Field{Name: names[j], Type: Named(spkgs[j], names[j]), Embedded: true})
			}
		}
		p.Types = append(p.Types, d)
		ctx.structs = append(ctx.structs, Named(spkgs[i], names[i]))
	}
	if pf.StrayController && rapid.IntRange(0, 2).Draw(t, "strayController") == 0 {
		// a fully annotated controller that lives in a type package, i.e. outside the configured globs:
		// gleece loads that package because routes use its types, yet the controller is not part of the API
		pkg := pickPkg()
		p.Types = append(p.Types, &TypeDecl{Name: "strayController", Pkg: pkg, File: "stray.go", Kind: "raw", Imports: []string{"github.com/gopher-fleece/runtime"},
			Raw: "// StrayController is not matched by commonConfig.controllerGlobs.\n// @Tag(Stray)\n// @Route(/stray)\ntype StrayController struct {\n\truntime.GleeceController\n}\n\n" +
				"// StrayOp must never be documented or served.\n// @Method(GET)\n// @Route(/stray-op)\nfunc (c *StrayController) StrayOp() error {\n\treturn nil\n}"})
	}
	return ctx
}

// pkgOrder forbids import cycles between type packages: a declaration may only reference
// declarations of its own package or of a package later in the profile's list.
var pkgOrder = map[string]int{}

func canRef(from, to string) bool { return from == to || pkgOrder[from] < pkgOrder[to] }

func filterRefs(from string, pool []TypeRef) []TypeRef {
	var out []TypeRef
	for _, r := range pool {
		if canRef(from, r.Pkg) {
			out = append(out, r)
		}
	}
	return out
}

func genFieldType(t *rapid.T, ctx *typeCtx, names, pkgs []string, self int, depth int) TypeRef {
	from := pkgs[self]
	kinds := []string{"prim", "prim", "prim", "time", "bytes", "any", "enum", "alias", "structVal", "structRef"}
	if depth > 0 {
		kinds = append(kinds, "slice", "slice", "map", "ptr")
	}
	switch rapid.SampledFrom(kinds).Draw(t, "fkind") {
	case "time":
		return TypeRef{Kind: "time"}
	case "bytes":
		return TypeRef{Kind: "bytes"}
	case "any":
		return TypeRef{Kind: "any"}
	case "enum":
		if pool := filterRefs(from, ctx.enums); len(pool) > 0 {
			return rapid.SampledFrom(pool).Draw(t, "fenum")
		}
	case "alias":
		if pool := filterRefs(from, ctx.aliases); len(pool) > 0 {
			return rapid.SampledFrom(pool).Draw(t, "falias")
		}
	case "structVal": // by value: earlier declarations only
		if self > 0 {
			j := rapid.IntRange(0, self-1).Draw(t, "fstructVal")
			if canRef(from, pkgs[j]) {
				return Named(pkgs[j], names[j])
			}
		}
	case "structRef": // through a pointer or slice: this declaration or an earlier one
		// self or an earlier declaration: type graphs are acyclic apart from self-recursion
		// (mutually recursive structs are an unsupported shape; C14's decorations cover them)
		j := rapid.IntRange(0, self).Draw(t, "fstructRef")
		if canRef(from, pkgs[j]) {
			if rapid.Bool().Draw(t, "refBySlice") {
				return Slice(Named(pkgs[j], names[j]))
			}
			return Ptr(Named(pkgs[j], names[j]))
		}
	case "slice":
		return Slice(genFieldType(t, ctx, names, pkgs, self, depth-1))
	case "map":
		return MapOf(genFieldType(t, ctx, names, pkgs, self, depth-1))
	case "ptr":
		inner := genFieldType(t, ctx, names, pkgs, self, 0)
		if inner.Kind == "ptr" || inner.Kind == "any" {
			return inner
		}
		return Ptr(inner)
	}
	return Prim(rapid.SampledFrom(primTypes).Draw(t, "fprim"))
}
